"""Shared by c15.py and c16.py (engine `master`): independent encoders for response fragments,
measurement objects and command objects, script building blocks, and a TRACE-DRIVEN tracker that
reconstructs from the implementation's own trace which request was outstanding when each fragment
arrived.  Nothing here is derived from the Coq model or from /repo."""
import struct
from propcheck import *

ADDR = 1024          # the outstation of the association
FOREIGN = [1, 1023, 1025, 10, 65519]


# --------------------------------------------------------------------------------------------
# fragments

def ctrl(fir, fin, con, uns, seq):
    return (0x80 if fir else 0) | (0x40 if fin else 0) | (0x20 if con else 0) | (0x10 if uns else 0) | (seq & 15)


def response(c, iin1=0, iin2=0, objs=b"", func=0x81):
    return bytes([c, func, iin1, iin2]) + objs


class Hdr:
    """the application header of a received fragment as the property sees it"""
    def __init__(self, frag):
        self.ok = False
        self.frag = frag
        if len(frag) < 4 or frag[1] not in (0x81, 0x82):
            return
        c = frag[0]
        self.fir, self.fin, self.con, self.uns, self.seq = bool(c & 0x80), bool(c & 0x40), bool(c & 0x20), bool(c & 0x10), c & 15
        self.unsol = frag[1] == 0x82
        self.iin1, self.iin2 = frag[2], frag[3]
        self.objs = frag[4:]
        if self.unsol:
            self.ok = self.uns and self.fir and self.fin
        else:
            self.ok = not self.uns
        self.iin2_bad = bool(self.iin2 & 7)
        self.hdr_hex = frag[:4].hex()


def f64_bits(x):
    return struct.unpack(">Q", struct.pack(">d", float(x)))[0]


class Objs:
    """an object section built header by header: bytes, the items extract_measurements delivers,
    and the positions at which a cut leaves a malformed section"""
    def __init__(self):
        self.data = b""
        self.items = []
        self.safe_cuts = [0]      # cutting here leaves a well-formed (shorter) section

    def _add(self, data, items):
        self.data += data
        self.items += items
        self.safe_cuts.append(len(self.data))

    def g1v2(self, start, flags, wide=False):
        n = len(flags)
        hdr = bytes([1, 2, 1 if wide else 0]) + (struct.pack("<HH", start, start + n - 1) if wide else bytes([start, start + n - 1]))
        q = "01" if wide else "00"
        self._add(hdr + bytes(flags), ["bi/g1v2/%s/e0f1/%d=%d,%02x,n" % (q, start + i, f >> 7, f) for i, f in enumerate(flags)])

    def g30v1(self, start, vals):
        n = len(vals)
        body = b"".join(bytes([f]) + struct.pack("<i", v) for f, v in vals)
        self._add(bytes([30, 1, 0, start, start + n - 1]) + body,
                  ["ai/g30v1/00/e0f1/%d=%016x,%02x,n" % (start + i, f64_bits(v), f) for i, (f, v) in enumerate(vals)])

    def g30v2(self, start, vals):
        n = len(vals)
        body = b"".join(bytes([f]) + struct.pack("<h", v) for f, v in vals)
        self._add(bytes([30, 2, 0, start, start + n - 1]) + body,
                  ["ai/g30v2/00/e0f1/%d=%016x,%02x,n" % (start + i, f64_bits(v), f) for i, (f, v) in enumerate(vals)])

    def g20v1(self, start, vals):
        n = len(vals)
        body = b"".join(bytes([f]) + struct.pack("<I", v) for f, v in vals)
        self._add(bytes([20, 1, 0, start, start + n - 1]) + body,
                  ["ctr/g20v1/00/e0f1/%d=%d,%02x,n" % (start + i, v, f) for i, (f, v) in enumerate(vals)])

    def g2v1(self, entries):
        body = b"".join(bytes([i, f]) for i, f in entries)
        self._add(bytes([2, 1, 0x17, len(entries)]) + body,
                  ["bi/g2v1/17/e1f1/%d=%d,%02x,n" % (i, f >> 7, f) for i, f in entries])

    def g2v2(self, entries):
        body = b"".join(struct.pack("<H", i) + bytes([f]) + t.to_bytes(6, "little") for i, f, t in entries)
        self._add(bytes([2, 2, 0x28]) + struct.pack("<H", len(entries)) + body,
                  ["bi/g2v2/28/e1f1/%d=%d,%02x,s%d" % (i, f >> 7, f, t) for i, f, t in entries])

    def g32v1(self, entries):
        body = b"".join(struct.pack("<H", i) + bytes([f]) + struct.pack("<i", v) for i, f, v in entries)
        self._add(bytes([32, 1, 0x28]) + struct.pack("<H", len(entries)) + body,
                  ["ai/g32v1/28/e1f1/%d=%016x,%02x,n" % (i, f64_bits(v), f) for i, f, v in entries])

    def g110(self, start, strings):
        ln = len(strings[0])
        body = b"".join(strings)
        self._add(bytes([110, ln, 0, start, start + len(strings) - 1]) + body,
                  ["octet/g110v%d/00/e0f0/%d=%s" % (ln, start + i, s.hex()) for i, s in enumerate(strings)])


def rand_objs(rng, max_headers=3):
    o = Objs()
    for _ in range(rng.range(1, max_headers)):
        k = rng.below(8)
        n = rng.range(1, 4)
        if k == 0:
            o.g1v2(rng.below(200), [rng.choice([0x01, 0x81, 0x00, 0x83, 0x41]) for _ in range(n)])
        elif k == 1:
            o.g1v2(rng.range(250, 60000), [rng.choice([0x01, 0x81]) for _ in range(n)], wide=True)
        elif k == 2:
            o.g30v1(rng.below(200), [(rng.choice([1, 0x21, 0]), rng.choice([0, 1, -1, 2147483647, -2147483648, rng.range(-100000, 100000)])) for _ in range(n)])
        elif k == 3:
            o.g30v2(rng.below(200), [(1, rng.choice([0, -1, 32767, -32768, rng.range(-3000, 3000)])) for _ in range(n)])
        elif k == 4:
            o.g20v1(rng.below(200), [(1, rng.choice([0, 1, 4294967295, rng.below(100000)])) for _ in range(n)])
        elif k == 5:
            o.g2v1([(rng.below(256), rng.choice([0x01, 0x81])) for _ in range(n)])
        elif k == 6:
            o.g2v2([(rng.below(65536), rng.choice([0x01, 0x81]), rng.choice([0, 1, 0xFFFFFFFFFFFF, rng.below(2 ** 40)])) for _ in range(n)])
        else:
            o.g32v1([(rng.below(65536), 1, rng.range(-1000, 1000)) for _ in range(n)])
    return o


# --------------------------------------------------------------------------------------------
# every object kind the ReadHandler can be given (family `objects` of C15): written from the object library of
# IEEE 1815 and from the line format of harness/master.rs, NOT from the Coq conversion model.  The composed model
# `mfull` must compute the same tokens from the octets alone.

TIME_MAX = (1 << 48) - 1
F32_POOL = [0x00000000, 0x80000000, 0x3F800000, 0xBFC00000, 0x7F7FFFFF, 0xFF7FFFFF, 0x7F800000, 0xFF800000, 0x00000001,
            0x42280000, 0x7FC00000, 0x4B800000]
F64_POOL = [0x0, 0x8000000000000000, 0x3FF0000000000000, 0x7FF0000000000000, 0xFFF0000000000000, 0x7FF8000000000000,
            0x7FF0000000000001, 0x1, 0x4045000000000000, 0xC1E0000000000000]

# value layouts: (name of the value field, struct code or None) per (group, variation); f = flags octet, t = 48-bit time,
# r = 16-bit time relative to the common time of occurrence
STATIC_LAYOUT = {
    (1, 2): ("bi", "f"), (3, 2): ("dbi", "f"), (10, 2): ("bos", "f"),
    (20, 1): ("ctr", "fI"), (20, 2): ("ctr", "fH"), (20, 5): ("ctr", "I"), (20, 6): ("ctr", "H"),
    (21, 1): ("fctr", "fI"), (21, 2): ("fctr", "fH"), (21, 5): ("fctr", "fIt"), (21, 6): ("fctr", "fHt"),
    (21, 9): ("fctr", "I"), (21, 10): ("fctr", "H"),
    (30, 1): ("ai", "fi"), (30, 2): ("ai", "fh"), (30, 3): ("ai", "i"), (30, 4): ("ai", "h"), (30, 5): ("ai", "fe"), (30, 6): ("ai", "fd"),
    (31, 1): ("fai", "fi"), (31, 2): ("fai", "fh"), (31, 3): ("fai", "fit"), (31, 4): ("fai", "fht"), (31, 5): ("fai", "i"),
    (31, 6): ("fai", "h"), (31, 7): ("fai", "fe"), (31, 8): ("fai", "fd"),
    (40, 1): ("aos", "fi"), (40, 2): ("aos", "fh"), (40, 3): ("aos", "fe"), (40, 4): ("aos", "fd"),
}
EVENT_LAYOUT = {
    (2, 1): ("bi", "f"), (2, 2): ("bi", "ft"), (2, 3): ("bi", "fr"),
    (4, 1): ("dbi", "f"), (4, 2): ("dbi", "ft"), (4, 3): ("dbi", "fr"),
    (11, 1): ("bos", "f"), (11, 2): ("bos", "ft"),
}
for _g, _k in ((22, "ctr"), (23, "fctr")):
    EVENT_LAYOUT.update({(_g, 1): (_k, "fI"), (_g, 2): (_k, "fH"), (_g, 5): (_k, "fIt"), (_g, 6): (_k, "fHt")})
for _g, _k in ((32, "ai"), (33, "fai"), (42, "aos")):
    EVENT_LAYOUT.update({(_g, 1): (_k, "fi"), (_g, 2): (_k, "fh"), (_g, 3): (_k, "fit"), (_g, 4): (_k, "fht"),
                         (_g, 5): (_k, "fe"), (_g, 6): (_k, "fd"), (_g, 7): (_k, "fet"), (_g, 8): (_k, "fdt")})


def rand_time(rng):
    return rng.choice([0, 1, 1700000000000, TIME_MAX, TIME_MAX - 3, rng.below(1 << 48)])


def rand_object(rng, kind, layout, cto):
    """one fixed-size object -> (octets, `<value>,<flags>,<time>` as harness/master.rs prints the measurement)"""
    data = b""
    flags, value, time = 0x01, None, "n"          # a variation without flags reports ONLINE
    for code in layout:
        if code == "f":
            flags = rng.choice([0x01, 0x81, 0x00, 0x41, 0xC1, 0x21, 0x7F, 0xFF, rng.below(256)])
            data += bytes([flags])
        elif code in "IH":
            bits = 32 if code == "I" else 16
            v = rng.choice([0, 1, (1 << bits) - 1, rng.below(1 << bits)])
            data += v.to_bytes(bits // 8, "little")
            value = "%d" % v
        elif code in "ih":
            bits = 32 if code == "i" else 16
            v = rng.choice([0, 1, -1, (1 << (bits - 1)) - 1, -(1 << (bits - 1)), rng.range(-100000, 100000) % (1 << (bits - 1))])
            data += (v % (1 << bits)).to_bytes(bits // 8, "little")
            value = "%016x" % f64_bits(v)
        elif code == "e":
            b = rng.choice(F32_POOL)
            data += struct.pack("<I", b)
            value = "%016x" % f64_bits(struct.unpack("<f", struct.pack("<I", b))[0])
        elif code == "d":
            b = rng.choice(F64_POOL) if rng.chance(2, 3) else rng.below(1 << 64)
            data += struct.pack("<Q", b)
            value = "%016x" % b
        elif code == "t":
            t = rand_time(rng)
            data += t.to_bytes(6, "little")
            time = "s%d" % t
        elif code == "r":
            r = rng.choice([0, 1, 65535, rng.below(65536)])
            data += struct.pack("<H", r)
            if cto is not None and cto[1] + r <= TIME_MAX:
                time = "%s%d" % (cto[0], cto[1] + r)
    if kind in ("bi", "bos"):
        value = "%d" % (flags >> 7)
    elif kind == "dbi":
        value = "%d" % (flags >> 6)
    return data, "%s,%02x,%s" % (value, flags, time)


class WideObjs(Objs):
    """an object section over the whole object library; `unmodelled` = it has a header whose callbacks the composed
    model (coq/Master/MFull.v) does not describe"""
    def __init__(self):
        Objs.__init__(self)
        self.cto = None
        self.unmodelled = False
        self.kinds = []

    def range_header(self, rng, g, v, n):
        wide = rng.chance(1, 3)
        start = rng.choice([0, rng.below(200), 255 - n + 1]) if not wide else rng.choice([0, 256, 65535 - n + 1, rng.below(60000)])
        hdr = bytes([g, v, 1 if wide else 0]) + (struct.pack("<HH", start, start + n - 1) if wide else bytes([start, start + n - 1]))
        return hdr, ("01" if wide else "00"), start

    def prefix_header(self, rng, g, v, n):
        wide = rng.chance(1, 2)
        hdr = bytes([g, v, 0x28 if wide else 0x17]) + (struct.pack("<H", n) if wide else bytes([n]))
        idx = [rng.choice([0, 255, rng.below(256)]) if not wide else rng.choice([0, 255, 256, 65535, rng.below(65536)]) for _ in range(n)]
        return hdr, ("28" if wide else "17"), idx, (2 if wide else 1)

    def add_any(self, rng):
        k = rng.below(17)
        n = rng.range(1, 3)
        if k <= 3:                                   # static fixed-size objects
            (g, v), (kind, layout) = rng.choice(sorted(STATIC_LAYOUT.items()))
            hdr, q, start = self.range_header(rng, g, v, n)
            body, items = b"", []
            for i in range(n):
                d, txt = rand_object(rng, kind, layout, None)
                body += d
                items.append("%s/g%dv%d/%s/e0f%d/%d=%s" % (kind, g, v, q, 1 if "f" in layout else 0, start + i, txt))
            self._add(hdr + body, items)
            self.kinds.append("g%dv%d" % (g, v))
        elif k <= 7:                                 # events, with and without a common time of occurrence
            (g, v), (kind, layout) = rng.choice(sorted(EVENT_LAYOUT.items()))
            if "r" in layout and rng.chance(3, 4):
                self.add_cto(rng)
            hdr, q, idx, w = self.prefix_header(rng, g, v, n)
            body, items = b"", []
            for i in idx:
                d, txt = rand_object(rng, kind, layout, self.cto)
                body += i.to_bytes(w, "little") + d
                items.append("%s/g%dv%d/%s/e1f1/%d=%s" % (kind, g, v, q, i, txt))
            self._add(hdr + body, items)
            self.kinds.append("g%dv%d" % (g, v))
        elif k == 8:                                 # packed single-bit objects
            g, kind = rng.choice([(1, "bi"), (10, "bos")])
            n = rng.range(1, 19)
            hdr, q, start = self.range_header(rng, g, 1, n)
            bits = [rng.below(2) for _ in range(n)]
            body = bytes(sum(b << j for j, b in enumerate(bits[i:i + 8])) for i in range(0, n, 8))
            self._add(hdr + body, ["%s/g%dv1/%s/e0f0/%d=%d,01,n" % (kind, g, q, start + i, b) for i, b in enumerate(bits)])
            self.kinds.append("g%dv1" % g)
        elif k == 9:                                 # packed double-bit objects
            n = rng.range(1, 9)
            hdr, q, start = self.range_header(rng, 3, 1, n)
            vals = [rng.below(4) for _ in range(n)]
            body = bytes(sum(b << (2 * j) for j, b in enumerate(vals[i:i + 4])) for i in range(0, n, 4))
            self._add(hdr + body, ["dbi/g3v1/%s/e0f0/%d=%d,01,n" % (q, start + i, b) for i, b in enumerate(vals)])
            self.kinds.append("g3v1")
        elif k == 10:                                # octet strings
            ln = rng.range(1, 5)
            strings = [rng.bytes(ln) for _ in range(n)]
            if rng.chance(1, 2):
                hdr, q, start = self.range_header(rng, 110, ln, n)
                self._add(hdr + b"".join(strings), ["octet/g110v%d/%s/e0f0/%d=%s" % (ln, q, start + i, s.hex()) for i, s in enumerate(strings)])
            else:
                hdr, q, idx, w = self.prefix_header(rng, 111, ln, n)
                self._add(hdr + b"".join(i.to_bytes(w, "little") + s for i, s in zip(idx, strings)),
                          ["octet/g111v%d/%s/e1f0/%d=%s" % (ln, q, i, s.hex()) for i, s in zip(idx, strings)])
            self.kinds.append("octets")
        elif k == 11:
            self.add_cto(rng)
        elif k == 12:                                # absolute time: delivered when the count is one
            c = rng.choice([1, 1, 1, 2])
            wide = rng.chance(1, 3)
            ts = [rand_time(rng) for _ in range(c)]
            hdr = bytes([50, 1, 8 if wide else 7]) + (struct.pack("<H", c) if wide else bytes([c]))
            self._add(hdr + b"".join(t.to_bytes(6, "little") for t in ts),
                      ["abs/g50v1/%s/e0f0/0=%d" % ("08" if wide else "07", ts[0])] if c == 1 else [])
            self.kinds.append("g50v1")
        elif k == 13:                                # headers no handler is called for
            j = rng.below(6)
            if j == 0:
                self._add(bytes([80, 1, 0, 0, 15, rng.below(256), rng.below(256)]), [])          # internal indications
            elif j == 1:
                self._add(bytes([52, rng.choice([1, 2]), 7, 1]) + rng.bytes(2), [])               # time delay
            elif j == 2:
                self._add(bytes([60, rng.choice([1, 2, 3, 4]), 6]), [])                           # all objects
            elif j == 3:
                self._add(bytes([12, 1, 0x17, 1, rng.below(256)]) + rng.bytes(10) + b"\x00", [])    # a command echo
            elif j == 4:
                self._add(bytes([34, 1, 0x17, 1, rng.below(256)]) + rng.bytes(2), [])             # dead-band with an index prefix
            else:
                self._add(bytes([rng.choice([1, 3, 10, 20, 21, 30, 31, 40]), 0, 0, 3, 5]), [])    # variation 0 with a range: no objects
            self.kinds.append("ignored")
        elif k == 14:                                # analog dead-bands with a range: delivered (not in the conversion model)
            v = rng.choice([1, 2, 3])
            hdr, q, start = self.range_header(rng, 34, v, n)
            body, items = b"", []
            for i in range(n):
                if v == 1:
                    x = rng.below(65536); body += struct.pack("<H", x); txt = "a%d" % x
                elif v == 2:
                    x = rng.below(1 << 32); body += struct.pack("<I", x); txt = "b%d" % x
                else:
                    x = rng.choice(F32_POOL); body += struct.pack("<I", x); txt = "c%08x" % x
                items.append("aidb/g34v%d/%s/e0f0/%d=%s" % (v, q, start + i, txt))
            self._add(hdr + body, items)
            self.kinds.append("g34")
        elif k == 15:                                # unsigned integers g102v1: delivered, not in the conversion model
            hdr, q, start = self.range_header(rng, 102, 1, n)
            vals = [rng.below(256) for _ in range(n)]
            self._add(hdr + bytes(vals), ["uint/g102v1/%s/e0f0/%d=%d" % (q, start + i, x) for i, x in enumerate(vals)])
            self.kinds.append("g102")
        else:                                        # binary output command events g13: delivered; the composed model
            v = rng.choice([1, 2])                   # does not describe them (`model-unmodelled`)
            hdr, q, idx, w = self.prefix_header(rng, 13, v, n)
            body, items = b"", []
            for i in idx:
                f = rng.choice([0x00, 0x80, 0x84, 0x7F, 0xFF, rng.below(256)])
                t = rand_time(rng)
                body += i.to_bytes(w, "little") + bytes([f]) + (t.to_bytes(6, "little") if v == 2 else b"")
                items.append("boce/g13v%d/%s/e1f1/%d=%d,%d,%s" % (v, q, i, f >> 7, f & 0x7F, ("s%d" % t) if v == 2 else "n"))
            self._add(hdr + body, items)
            self.unmodelled = True
            self.kinds.append("g13")

    def add_cto(self, rng):
        v = rng.choice([1, 2])
        c = rng.choice([1, 1, 1, 1, 2])
        wide = rng.chance(1, 4)
        ts = [rng.choice([0, 5, TIME_MAX, TIME_MAX - 100, TIME_MAX - 65535, rng.below(1 << 48)]) for _ in range(c)]
        hdr = bytes([51, v, 8 if wide else 7]) + (struct.pack("<H", c) if wide else bytes([c]))
        self._add(hdr + b"".join(t.to_bytes(6, "little") for t in ts), [])
        if c == 1:                                   # a count of two is not a common time of occurrence
            self.cto = ("s" if v == 1 else "u", ts[0])
        self.kinds.append("g51v%d" % v)


def wide_objs(rng, max_headers=3):
    o = WideObjs()
    for _ in range(rng.range(1, max_headers)):
        o.add_any(rng)
    return o


def malformed(rng, o):
    """a malformed variant of a well-formed object section"""
    k = rng.below(4)
    if k == 0 or len(o.data) < 2:
        return bytes([rng.choice([5, 9, 200, 255]), 1, 6])          # unknown group
    if k == 1:
        cuts = [c for c in range(1, len(o.data)) if c not in o.safe_cuts]
        return o.data[:rng.choice(cuts)]                       # truncated inside a header or object
    if k == 2:
        return o.data + bytes([1, 2, 0, 5])                    # dangling partial header
    return o.data + bytes([1, 2, 0x5B, 1, 0])                  # qualifier not valid for the variation


# --------------------------------------------------------------------------------------------
# command objects

CMD_SIZES = {(12, 1): 11, (41, 1): 5, (41, 2): 3, (41, 3): 5, (41, 4): 9}
F32_SPECIAL = [0x00000000, 0x80000000, 0x3F800000, 0x7F800000, 0xFF800000, 0x7FC00000, 0x00000001, 0x42280000]
F64_SPECIAL = [0x0, 0x8000000000000000, 0x3FF0000000000000, 0x7FF0000000000000, 0x7FF8000000000000, 0x1, 0x4045000000000000]


def cmd_object(rng, g, v, status=0):
    if (g, v) == (12, 1):
        code = rng.choice([0x01, 0x03, 0x04, 0x41, 0x81, 0x00, 0xFF, rng.below(256)])
        return bytes([code, rng.choice([1, 0, 255]), ]) + struct.pack("<II", rng.choice([0, 100, 4294967295]), rng.choice([0, 10, 65536])) + bytes([status])
    if (g, v) == (41, 1):
        return struct.pack("<i", rng.choice([0, 1, -1, 2147483647, -2147483648, rng.range(-9999, 9999)])) + bytes([status])
    if (g, v) == (41, 2):
        return struct.pack("<h", rng.choice([0, 1, -1, 32767, -32768, rng.range(-999, 999)])) + bytes([status])
    if (g, v) == (41, 3):
        bits = rng.choice(F32_SPECIAL) if rng.chance(1, 2) else rng.below(2 ** 32)
        return struct.pack("<I", bits) + bytes([status])
    bits = rng.choice(F64_SPECIAL) if rng.chance(1, 2) else rng.below(2 ** 64)
    return struct.pack("<Q", bits) + bytes([status])


def rand_command(rng, max_headers=3, max_items=3):
    """list of headers (g, v, wide, [(index, object bytes)])"""
    hs = []
    for _ in range(rng.range(1, max_headers)):
        g, v = rng.choice(list(CMD_SIZES))
        wide = rng.chance(1, 2)
        items = []
        for _ in range(rng.range(1, max_items)):
            idx = rng.choice([0, 1, 255, rng.below(256)]) if not wide else rng.choice([0, 255, 256, 65535, rng.below(65536)])
            items.append((idx, cmd_object(rng, g, v)))
        hs.append((g, v, wide, items))
    return hs


def encode_headers(hs):
    out = b""
    for g, v, wide, items in hs:
        out += bytes([g, v, 0x28 if wide else 0x17])
        out += struct.pack("<H", len(items)) if wide else bytes([len(items)])
        for idx, obj in items:
            out += (struct.pack("<H", idx) if wide else bytes([idx])) + obj
    return out


def header_tokens(hs):
    return ["%d.%d/%d/%s" % (g, v, 16 if wide else 8,
                             ",".join("%d=%s" % (i, o.hex()) for i, o in items) if items else "-")
            for g, v, wide, items in hs]


def parse_command_headers(data):
    """independent reader of an echo: list of (g, v, wide, items) until something that is not a
    command header; returns (headers, clean) with clean = the whole section was consumed"""
    hs = []
    p = 0
    while p < len(data):
        if p + 3 > len(data):
            return hs, False
        g, v, q = data[p], data[p + 1], data[p + 2]
        if (g, v) not in CMD_SIZES or q not in (0x17, 0x28):
            return hs, False
        wide = q == 0x28
        p += 3
        w = 2 if wide else 1
        if p + w > len(data):
            return hs, False
        count = int.from_bytes(data[p:p + w], "little")
        p += w
        items = []
        size = CMD_SIZES[(g, v)]
        for _ in range(count):
            if p + w + size > len(data):
                return hs, False
            items.append((int.from_bytes(data[p:p + w], "little"), data[p + w:p + w + size]))
            p += w + size
        hs.append((g, v, wide, items))
    return hs, True


def faithful(sent, echo_bytes):
    """the reply echoes every requested object with identical contents and status SUCCESS
    (identical = the same octets)"""
    hs, clean = parse_command_headers(echo_bytes)
    if not clean or len(hs) != len(sent):
        return False
    for (g, v, wide, items), (g2, v2, wide2, items2) in zip(sent, hs):
        if (g, v, wide) != (g2, v2, wide2) or len(items) != len(items2):
            return False
        for (i, o), (i2, o2) in zip(items, items2):
            if i != i2 or o != o2 or o2[-1] != 0:
                return False
    return True


def only_zero_sign_differs(sent, echo_bytes):
    """the echo differs from the request only in the sign bit of floating point zeros"""
    hs, clean = parse_command_headers(echo_bytes)
    if not clean or len(hs) != len(sent):
        return False
    diff = False
    for (g, v, wide, items), (g2, v2, wide2, items2) in zip(sent, hs):
        if (g, v, wide) != (g2, v2, wide2) or len(items) != len(items2):
            return False
        for (i, o), (i2, o2) in zip(items, items2):
            if i != i2 or o2[-1] != 0 or o[-1] != 0:
                return False
            if o == o2:
                continue
            if (g, v) in ((41, 3), (41, 4)):
                a = int.from_bytes(o[:-1], "little")
                b = int.from_bytes(o2[:-1], "little")
                top = 1 << (8 * (len(o) - 1) - 1)
                if (a & ~top) == 0 and (b & ~top) == 0:
                    diff = True
                    continue
            return False
    return diff


def has_nan(sent):
    for g, v, wide, items in sent:
        for i, o in items:
            if (g, v) == (41, 3):
                b = int.from_bytes(o[:4], "little")
                if (b >> 23) & 0xFF == 0xFF and b & 0x7FFFFF:
                    return True
            if (g, v) == (41, 4):
                b = int.from_bytes(o[:8], "little")
                if (b >> 52) & 0x7FF == 0x7FF and b & ((1 << 52) - 1):
                    return True
    return False


# --------------------------------------------------------------------------------------------
# scripts

class Script:
    """ops of one script plus what the generator intends each op to be (used for the liveness
    clauses only; every safety clause is judged from the trace)"""
    def __init__(self, sid, cfg=None):
        self.sid = sid
        self.cfg = dict(cfg or {})
        self.ops = []
        self.intent = {}       # op index -> "complete" | "continue" | "deliver"
        self.tokens = {}       # token -> {"kind":..., "headers": [...]}
        self.seq = 0           # predicted Association::seq
        self.last_unsol = None # the unsolicited fragment the generator expects to have been accepted last
        self.ntok = 0

    def rx(self, frag, verdict="ok", items=(), src=ADDR, intent=None):
        if len(frag) >= 4 and frag[1] == 0x82 and src == ADDR and verdict == "ok":
            # an unsolicited fragment equal to the one accepted last is a repeat, not a delivery
            if intent == "deliver" and frag == self.last_unsol:
                intent = None
            if intent == "deliver" or len(frag) == 4:
                self.last_unsol = frag
        if intent:
            self.intent[len(self.ops)] = intent
        self.ops.append(["rx", src, hexs(frag), verdict] + list(items))

    def sleep(self, ms):
        self.ops.append(["sleep", ms])

    def op(self, name):
        self.ops.append([name])

    def token(self):
        self.ntok += 1
        return "t%d" % self.ntok

    def user(self, kind, *args, meta=None):
        tok = self.token()
        self.tokens[tok] = dict(meta or {}, kind=kind, op=len(self.ops))
        self.ops.append(["user", tok, kind] + list(args))
        return tok

    def take_seq(self):
        s = self.seq
        self.seq = (self.seq + 1) & 15
        return s

    def case(self, kind, extra=None):
        meta = {"kind": kind, "cfg": self.cfg, "intent": {str(k): v for k, v in self.intent.items()},
                "tokens": {t: {k: (v if k != "headers" else [[g, vv, w, [[i, o.hex()] for i, o in its]] for g, vv, w, its in v])
                               for k, v in m.items()} for t, m in self.tokens.items()}}
        meta.update(extra or {})
        return Case(self.sid, script_text(self.sid, "master", self.cfg, [tuple(o) for o in self.ops]), meta)


def meta_headers(m):
    return [(g, v, w, [(i, bytes.fromhex(o)) for i, o in its]) for g, v, w, its in m]


# --------------------------------------------------------------------------------------------
# trace

def parse_script(text):
    lines = text.strip().splitlines()
    head = lines[0].split()
    cfg = dict(kv.split("=", 1) for kv in head[3:])
    ops = [l.split() for l in lines[1:-1]]
    return cfg, ops


def split_trace(impl):
    """-> (lines before the first op, [lines of op 0, lines of op 1, ...]); a line is (t, [words])"""
    init, groups = [], []
    cur = init
    for l in impl:
        w = l.split()
        if len(w) >= 2 and w[0].isdigit():
            t = int(w[0])
            if w[1] == "op":
                cur = []
                groups.append(cur)
                continue
            cur.append((t, w[1:]))
        else:
            cur.append((-1, w))
    return init, groups


class Outstanding:
    def __init__(self, fc, seq, t, objs):
        self.fc, self.seq, self.t, self.objs = fc, seq, t, objs
        self.frags = 0          # response fragments accepted so far (READ)
        self.last_progress = t
        self.is_read = fc == 1
        self.link = False

    def expected(self):
        return (self.seq + self.frags) & 15

    def copy(self):
        o = Outstanding(self.fc, self.seq, self.t, self.objs)
        o.frags, o.last_progress, o.link = self.frags, self.last_progress, self.link
        return o


class Tracker:
    """what can be read off the trace itself: the request that is outstanding, the last
    unsolicited fragment that was accepted, whether there is a connection"""
    def __init__(self, link_tokens=()):
        self.link_tokens = set(link_tokens)
        self.cur = None
        self.last_unsol = None
        self.connected = False
        self.select = None     # the SELECT whose OPERATE is outstanding
        self.next_seq = None   # sequence number the next request must carry
        self.errors = []

    def feed(self, t, w, frag=None):
        if w[0] == "tx" and len(w) == 3:
            data = bytes.fromhex(w[2]) if w[2] != "-" else b""
            if len(data) >= 2 and data[1] != 0:
                if self.next_seq is not None and (data[0] & 15) != self.next_seq:
                    self.errors.append(("request-sequence-fresh", "request %s carries sequence %d, the previous request and the "
                                        "fragments accepted since make %d the next number" % (w[2][:12], data[0] & 15, self.next_seq)))
                self.next_seq = ((data[0] & 15) + 1) & 15
                prev = self.cur
                self.cur = Outstanding(data[1], data[0] & 15, t, data[2:])
                if data[1] == 4 and prev is not None and prev.fc == 3:
                    self.select = prev
                else:
                    self.select = None
        elif w[0] == "tx-link-status-request":
            self.cur = Outstanding(-1, 0, t, b"")
            self.cur.link = True
        elif w[0] == "cb" and w[1] == "begin" and w[2] != "unsol":
            if self.cur is not None:
                self.cur.frags += 1
                self.cur.last_progress = t
            if len(w) > 3 and self.next_seq is not None and not (int(w[3][:2], 16) & 0x40):
                self.next_seq = (self.next_seq + 1) & 15       # a non-final fragment: the series goes on
        elif w[0] == "info" and w[1] in ("task_success", "task_fail"):
            self.cur = None
        elif w[0] == "res" and self.cur is not None and self.cur.link and w[1] in self.link_tokens:
            self.cur = None
        elif w[0] == "info" and w[1] == "unsolicited":
            self.last_unsol = frag
        elif w[0] == "chan":
            if w[1] == "connected":
                self.connected = True
            elif w[1] == "run_end":
                self.connected = False
                self.cur = None
                self.last_unsol = None


# --------------------------------------------------------------------------------------------
# second model pass: the composed master model (engine `mfull`, coq/Master/MFull.v)

class MasterProp(Prop):
    """base of C15 / C16.  Engine `master` (Master/MTask.v) is given, with every `rx` op, the generator's claim of
    what the real object parser says about the fragment (ok / bad / none) and of the measurement items the
    ReadHandler receives.  The composed model computes both from the received octets (App/Grammar.v for the
    verdict, App/Convert.v - the conversion model of C10 - for the items): engine `mfull` reads the SAME script,
    ignores those tokens and must predict the implementation's whole trace, `pv` and `cb` lines included."""
    extra_name = "mfull"
    extra_what = ("composed master model `mfull`: verdict of the object parser (Grammar) and delivered measurement "
                  "items (C10 conversion model) computed from the received octets, not read from the script")

    def extra_model_script(self, case, impl):
        """the script for engine `mfull`, or None when there is nothing to compare: another engine, an
        implementation-only script, or the implementation panicked / the harness died (reported by the oracle).
        Fragments with objects whose callbacks the composed model does not describe (g0, g13, g43) are
        recognised by the model itself: it prints `model-unmodelled` (see extra_canon)."""
        self._mfull_skips = getattr(self, "_mfull_skips", {})
        lines = [l for l in case.script.split("\n") if l.strip()]
        head = lines[0].split()
        why = None
        if len(head) < 3 or head[2] != "master":
            why = "other engine"
        elif case.meta.get("impl_only"):
            why = "implementation-only script"
        elif any(l.startswith("panic") or l.startswith("harness-died") or l == "missing" for l in impl):
            why = "implementation panicked or harness died"
        if why:
            self._mfull_skips[why] = self._mfull_skips.get(why, 0) + 1
            return None
        return "\n".join([" ".join(head[:2] + ["mfull"] + head[3:])] + lines[1:])

    def extra_canon(self, lines, side):
        """both sides verbatim; None = the model declared the script outside its domain"""
        if side == "model" and any(l.strip() == "model-unmodelled" for l in lines):
            self._mfull_skips = getattr(self, "_mfull_skips", {})
            k = "objects outside the composed model: g0 / g13 / g43 (model-unmodelled)"
            self._mfull_skips[k] = self._mfull_skips.get(k, 0) + 1
            return None
        return list(lines)

    def coverage_extra(self):
        return {"second_pass_not_covered": dict(getattr(self, "_mfull_skips", {}))}


def machinery_failures(impl):
    out = []
    for l in impl:
        if l.startswith("panic") or l.startswith("harness-died") or l == "missing" or l.startswith("unknown-engine"):
            out.append(("no-panic", "master task panicked or the harness died: " + l[:200]))
    return out
