"""C17 — Master start-up and restart handling runs in order and gates unsolicited data.

Also the home of everything C17 and C19 share: the script generator of engine `msched`, the
concretisation of abstract `reply` ops through the model, the parser of `msched` traces and the
timeline helpers used by both oracles."""
import os, subprocess
from propcheck import *

# ---------------------------------------------------------------------------------------------
# configurations

RETRY_POOL = [(1000, 10000), (5, 20), (5, 5), (1, 1), (0, 0), (0, 7), (1, 3), (3, 2), (10, 1000),
              (7, 100), (2, 1 << 33), (1 << 30, 1 << 34), (1 << 34, 1 << 34), (250, 300), (40, 10)]
RTO_POOL = [1, 2, 5, 20, 100, 1000]
KA_POOL = [0, 0, 0, 30, 200, 5000]
SYSTIME_BASE = 1600000000000

IIN1_RESTART, IIN1_NEED_TIME = 0x80, 0x10
IIN2_OVERFLOW = 0x08


class AssocCfg:
    def __init__(self, dis, integ, en, ts, ovf, ev, rmin, rmax, ka, rto, maxq):
        self.dis, self.integ, self.en, self.ts, self.ovf, self.ev = dis, integ, en, ts, ovf, ev
        self.rmin, self.rmax, self.ka, self.rto, self.maxq = rmin, rmax, ka, rto, maxq

    def spec(self):
        return ":".join(str(x) for x in (self.dis, self.integ, self.en, self.ts, self.ovf, self.ev,
                                         self.rmin, self.rmax, self.ka, self.rto, self.maxq))

    @staticmethod
    def parse(spec):
        return AssocCfg(*[int(x) for x in spec.split(":")])


def rand_assoc(rng, flavour):
    """flavour: 'startup' (automatic tasks likely on), 'sched' (quiet associations likely)"""
    def evmask():
        return rng.choice([0, 7, 7, rng.range(1, 7)])
    if flavour == "sched":
        quiet = rng.chance(3, 5)
        dis = 0 if quiet else evmask()
        integ = 0 if quiet else rng.choice([0, 15, 15, rng.range(1, 15)])
        en = 0 if quiet else evmask()
        ts = 0 if rng.chance(3, 4) else rng.range(1, 3)
        ev = 0 if rng.chance(3, 4) else rng.range(1, 7)
    else:
        dis, en = evmask(), evmask()
        integ = rng.choice([0, 15, 15, 15, rng.range(1, 15)])
        ts = rng.choice([0, 0, 1, 2, 3])
        ev = rng.choice([0, 0, 7, rng.range(1, 7)])
    rmin, rmax = rng.choice(RETRY_POOL)
    return AssocCfg(dis, integ, en, ts, rng.below(2), ev, rmin, rmax, rng.choice(KA_POOL),
                    rng.choice(RTO_POOL), rng.choice([1, 2, 16, 16]))


# ---------------------------------------------------------------------------------------------
# fragments (independent encoders; nothing here is derived from /repo)

def objs_binary(rng, n=None):
    """g1v2, 8-bit start/stop"""
    n = n or rng.range(1, 5)
    start = rng.below(20)
    return bytes([1, 2, 0, start, start + n - 1]) + bytes(rng.below(2) * 0x80 | 1 for _ in range(n))


def objs_events(rng, n=None):
    """g2v1, 8-bit count, 8-bit index prefix"""
    n = n or rng.range(1, 4)
    out = bytes([2, 1, 0x17, n])
    for _ in range(n):
        out += bytes([rng.below(10), 0x81 if rng.chance(1, 2) else 0x01])
    return out


def objs_bad(rng):
    return rng.choice([bytes([0xff]), bytes([1, 2, 0, 5]), bytes([1, 2, 0, 3, 9, 1]), bytes([2, 1, 0x17, 3, 0, 1]),
                       bytes([1, 2, 0, 9, 3, 1])])


def rand_iin(rng, hot):
    """(iin1, iin2): mostly quiet, `hot` raises the chance of the indications C17 is about"""
    iin1 = iin2 = 0
    p = 3 if hot else 12
    if rng.chance(1, p): iin1 |= IIN1_RESTART
    if rng.chance(1, p): iin1 |= IIN1_NEED_TIME
    if rng.chance(1, p): iin1 |= rng.range(1, 7) << 1          # class 1/2/3 events available
    if rng.chance(1, 2 * p): iin2 |= IIN2_OVERFLOW
    if rng.chance(1, 3 * p): iin1 |= rng.choice([0x01, 0x20, 0x40])  # broadcast, local, trouble
    if rng.chance(1, 4 * p): iin2 |= rng.choice([0x10, 0x20])
    return iin1, iin2


def unsol(rng, n, hot=False, last=None):
    """an unsolicited response: ('rx', from, hex)"""
    if last is not None and rng.chance(1, 5):
        return last
    src = 1024 + rng.below(n) if rng.chance(9, 10) else 1024 + n + rng.below(3)
    ctl = 0xD0 | rng.below(16)
    if rng.chance(4, 5): ctl |= 0x20
    if rng.chance(1, 25): ctl &= ~0x40          # malformed: unsolicited without FIN
    iin1, iin2 = rand_iin(rng, hot)
    k = rng.below(10)
    objs = b"" if k < 4 else objs_events(rng) if k < 8 else objs_binary(rng) if k < 9 else objs_bad(rng)
    return ("rx", src, (bytes([ctl & 0xff, 0x82, iin1, iin2]) + objs).hex())


def reply(rng, hot=False, quality=None):
    """an abstract reply to whatever request is outstanding (resolved by the model's concretiser)"""
    q = quality or rng.choice(["ok"] * 12 + ["objs", "objs", "multi", "seq", "src", "nofin", "iin2", "iin2", "badobjs",
                                               "extra", "garbage", "con"])
    iin1, iin2 = rand_iin(rng, hot)
    ctl, objs, dseq, dsrc, delay, robjs = 0xC0, "auto", 0, 0, rng.choice([0, 0, 1, 2, 50]), "-"
    if q == "objs":
        robjs = (objs_binary(rng) if rng.chance(1, 2) else objs_events(rng)).hex()
    elif q == "multi":
        ctl = rng.choice([0xA0, 0x20, 0x60, 0x80, 0x00, 0x40])
        robjs = objs_binary(rng).hex()
    elif q == "con":
        ctl = 0xE0
    elif q == "seq":
        dseq = rng.range(1, 15)
    elif q == "src":
        dsrc = rng.range(1, 3)
    elif q == "nofin":
        ctl = rng.choice([0x80, 0x40, 0x00])
    elif q == "iin2":
        iin2 |= rng.choice([1, 2, 4])
    elif q == "badobjs":
        objs = objs_bad(rng).hex()
    elif q == "extra":
        objs = (objs_binary(rng) if rng.chance(1, 2) else bytes([0x34, 2, 7, 1, 5, 0])).hex()
    elif q == "garbage":
        return ("rx", 1024, rng.choice(["c0", "c081", "c08100", "c0010000", "c0000000", "d0810000", "c0820000", "c07f0000"]))
    return ("reply", "%02x" % ctl, "%02x" % iin1, "%02x" % iin2, objs, dseq, dsrc, delay, robjs)


# ---------------------------------------------------------------------------------------------
# script generation

class Gen:
    def __init__(self, rng, flavour):
        self.rng, self.flavour = rng, flavour
        self.token = 0
        self.last_unsol = None

    def config(self):
        rng = self.rng
        self.n = rng.choice([1, 1, 2, 3, 4]) if self.flavour == "sched" else rng.choice([1, 1, 1, 2, 3])
        self.assocs = [rand_assoc(rng, self.flavour) for _ in range(self.n)]
        self.systime = "none" if rng.chance(1, 6) else str(SYSTIME_BASE + rng.below(1000))
        # calm: no keep-alive, no polls, a response time-out that is not tiny and a slow retry
        self.calm = all(a.ka == 0 and a.rto >= 100 and a.rmin >= 250 for a in self.assocs)
        self.npolls = [0] * self.n
        cfg = {"n": self.n, "systime": self.systime}
        for i, a in enumerate(self.assocs):
            cfg["a%d" % i] = a.spec()
        return cfg

    def times(self):
        """interesting durations of this configuration; a script may cross only a bounded number of
        deadlines, so long sleeps are allowed only where nothing recurs quickly (`self.calm`)"""
        out = [0, 1, 2, 3, 10]
        for a in self.assocs:
            out += [a.rto - 1, a.rto, a.rto + 1, a.rmin, a.rmin - 1, a.rmin + 1, 2 * a.rmin, a.rmax, a.rmax + 1]
            if a.ka: out += [a.ka - 2, a.ka - 1, a.ka, a.ka + 1]
        cap = (1 << 35) if self.calm else 2500
        return [t for t in out if 0 <= t <= cap]

    def op(self, hot):
        rng, n = self.rng, self.n
        w = rng.below(100)
        if self.flavour == "startup":
            if w < 46: return reply(rng, hot)
            if w < 56: return reply(rng, hot, "ok")
            if w < 70:
                self.last_unsol = unsol(rng, n, hot, self.last_unsol)
                return self.last_unsol
            if w < 84: return ("sleep", rng.choice(self.times()))
            if w < 86: return ("reconnect",)
            if w < 87: return ("disable",)
            if w < 89: return ("enable",)
            if w < 91: return ("systime", rng.choice(["none", str(SYSTIME_BASE)]))
            if w < 94: return self.user()
            if w < 97: return self.add_poll()
            if w < 98: return ("demand", rng.below(n), rng.below(3))
            return ("now",)
        else:
            if w < 38: return reply(rng, hot, "ok" if rng.chance(3, 4) else None)
            if w < 44:
                self.last_unsol = unsol(rng, n, hot, self.last_unsol)
                return self.last_unsol
            if w < 62: return ("sleep", min(2500, rng.choice(self.times() + self.periods)))
            if w < 76: return self.user()
            if w < 84: return self.add_poll()
            if w < 90: return ("demand", rng.below(n), rng.below(3))
            if w < 92: return ("reconnect",)
            if w < 94: return ("disable",)
            if w < 97: return ("enable",)
            return ("now",)

    periods = [0, 1, 5, 17, 100, 1000]

    def user(self):
        rng = self.rng
        self.token += 1
        a = rng.below(self.n)
        k = rng.below(10)
        if k < 5: return ("user", a, self.token, "read", rng.range(1, 15))
        if k < 7: return ("user", a, self.token, "empty")
        if k < 9: return ("user", a, self.token, "link")
        return ("user", a, self.token, "tsync", rng.range(1, 3))

    def add_poll(self):
        rng = self.rng
        a = rng.below(self.n)
        if self.npolls[a] >= 3:
            return ("now",)
        self.calm = False
        # distinct class masks per association so that a poll is recognised by its request bytes
        mask = [9, 10, 12][self.npolls[a]]
        self.npolls[a] += 1
        period = rng.choice(self.periods + [rng.range(2, 60)])
        self.periods = self.periods + [period, period + 1, max(0, period - 1)]
        return ("add_poll", a, period, mask)

    def script(self, sid, length):
        cfg = self.config()
        hot = self.rng.chance(1, 2)
        ops = []
        if self.flavour == "sched":
            for _ in range(self.rng.below(4)):
                ops.append(self.add_poll())
        for _ in range(length):
            ops.append(self.op(hot))
        return script_text(sid, "msched", cfg, ops)


def concretize(prop_id, abstract):
    """resolve `reply` ops through the model (same mechanism as C06's stream cutting)"""
    build_model()
    work = os.path.join(WORK, prop_id)
    os.makedirs(work, exist_ok=True)
    ap = os.path.join(work, "abstract.txt")
    open(ap, "w").write("\n".join(abstract) + "\n")
    p = subprocess.run(["bash", "-c", "ulimit -s unlimited; exec %s --concretize %s" % (os.path.join(OCAML, "driver"), ap)],
                       stdout=subprocess.PIPE, stderr=subprocess.PIPE, text=True)
    if p.returncode != 0:
        raise BuildError("concretize failed: " + p.stderr[-1000:])
    out, cur = {}, []
    for line in p.stdout.splitlines():
        cur.append(line)
        if line == "E":
            out[cur[0].split()[1]] = "\n".join(cur)
            cur = []
    return out


def backoff_cases(rng, count):
    """direct correspondence of Backoff.v with app::retry: exhaustive over small parameters plus
    random large ones around the overflow of Duration::checked_mul"""
    scripts = []
    ops = []
    for mn in range(0, 7):
        for mx in range(0, 9):
            ops.append(("backoff", "0:%d" % mn, "0:%d" % mx, 8))
    scripts.append(("small", ops))
    big = [(1 << 63) - 1, 1 << 63, (1 << 63) + 1, (1 << 64) - 1, (1 << 62), (1 << 62) + 1, (1 << 64) // 3]
    ops = []
    for _ in range(count):
        def dur():
            k = rng.below(6)
            if k == 0: return (rng.choice(big), rng.choice([0, 1, 499999999, 500000000, 999999999]))
            if k == 1: return (rng.below(1 << 64), rng.below(1000000000))
            if k == 2: return (rng.below(1 << 20), rng.below(1000000000))
            if k == 3: return ((1 << rng.range(50, 63)) + rng.below(3) - 1, rng.below(1000000000))
            return (rng.below(100), rng.choice([0, 500000000, 999999999]))
        (a, b), (c, d) = dur(), dur()
        ops.append(("backoff", "%d:%d" % (a, b), "%d:%d" % (c, d), rng.range(1, 70)))
    scripts.append(("large", ops))
    return scripts


# ---------------------------------------------------------------------------------------------
# traces

class Ev:
    """one observation line, parsed"""
    def __init__(self, line):
        t = line.split()
        self.line, self.kind = line, t[0]
        self.t = int(t[1]) if len(t) > 1 and t[1].lstrip("-").isdigit() else None
        self.f = t


def parse_trace(lines):
    return [Ev(l) for l in lines if l.split() and l.split()[0] in
            ("conn", "closed", "rx", "op", "tx", "txlink", "cb", "info", "res", "now")]


def script_ops(script):
    """[(time, op tokens)] of a concrete script: the first op happens at t = 1, every op costs
    1 ms, `sleep d` costs d + 1"""
    lines = script.strip().splitlines()
    head = lines[0].split()
    cfg = dict(kv.split("=", 1) for kv in head[3:])
    t, out = 1, []
    for l in lines[1:]:
        tok = l.split()
        if tok == ["E"]:
            break
        out.append((t, tok))
        t += 1 + (int(tok[1]) if tok[0] == "sleep" else 0)
    return cfg, out


def machinery_failures(impl):
    out = []
    for l in impl:
        if l.startswith("panic") or l.startswith("harness-died") or l == "missing":
            out.append(("no-panic", "master task panicked or the harness died: " + l[:200]))
        if l == "stall":
            out.append(("no-busy-loop", "the master task never yielded again (busy loop): virtual time stopped"))
    return out


def nth_delay(mn, mx, k):
    """independent statement of the back-off: min, then doubled and capped (ms); the repaired code
    never schedules a retry less than 1 ms ahead"""
    d = mn
    for _ in range(k):
        d = min(2 * d, mx)
    return max(d, 1)


AUTO_TYPES = ("disable-unsol", "integrity", "enable-unsol", "clear-restart", "time-sync", "event-scan")
USER_KIND_OF = {"read": "user-read", "empty": "empty-7", "tsync": "time-sync", "link": "link"}


def parse_fragment(hexs_):
    """header fields of a received fragment, None when the master's transport rejects it"""
    b = bytes.fromhex(hexs_) if hexs_ != "-" else b""
    if len(b) < 4 or b[1] not in (0x81, 0x82):
        return None
    ctl = b[0]
    f = {"uns": bool(ctl & 0x10), "fir": bool(ctl & 0x80), "fin": bool(ctl & 0x40), "con": bool(ctl & 0x20),
         "seq": ctl & 15, "fc": b[1], "iin1": b[2], "iin2": b[3], "objs": b[4:]}
    if b[1] == 0x81 and f["uns"]: return None
    if b[1] == 0x82 and not f["uns"]: return None
    if b[1] == 0x82 and not (f["fir"] and f["fin"]): return None
    return f


def objects_parse(b):
    """the three object forms the generators use; True when all headers are well formed"""
    b = list(b)
    while b:
        if len(b) >= 5 and b[0:3] == [1, 2, 0] and b[3] <= b[4]:
            n = b[4] - b[3] + 1
            if len(b) < 5 + n: return False
            b = b[5 + n:]
        elif len(b) >= 4 and b[0:3] == [2, 1, 0x17] and b[3] >= 1:
            if len(b) < 4 + 2 * b[3]: return False
            b = b[4 + 2 * b[3]:]
        elif len(b) >= 4 and b[0:3] == [52, 2, 7] and b[3] >= 1:
            if len(b) < 4 + 2 * b[3]: return False
            b = b[4 + 2 * b[3]:]
        else:
            return False
    return True


class Timeline:
    """the implementation trace of one msched script, joined with the script's ops"""

    def __init__(self, case, impl):
        self.cfg, self.ops = script_ops(case.script)
        self.n = int(self.cfg.get("n", "1"))
        self.assocs = [AssocCfg.parse(self.cfg.get("a%d" % i, "0:0:0:0:0:0:1000:10000:0:1000:16")) for i in range(self.n)]
        self.ev = parse_trace(impl)
        # time synchronisations whose start fails leave no trace, and those of the user are not told
        # apart from the automatic ones: the retry delays of time-sync are checked only without both
        self.silent_tsync = (self.cfg.get("systime", "none") == "none"
                             or any(o[0] == "systime" and o[1] == "none" for _, o in self.ops)
                             or any(o[0] == "user" and o[3] == "tsync" for _, o in self.ops))
        # received fragments in the order they were handed to the connected master
        marks = [e for e in self.ev if e.kind == "rx"]
        rxops = [(t, o) for t, o in self.ops if o[0] == "rx" and o[2] != "-"]
        self.rx = {}
        k = 0
        for m in marks:
            while k < len(rxops) and not (rxops[k][0] == m.t and rxops[k][1][1] == m.f[2]):
                k += 1
            if k < len(rxops):
                self.rx[id(m)] = parse_fragment(rxops[k][1][2])
                k += 1
        self.stream0 = [e for e in self.ev if e.kind in ("conn", "closed", "rx", "op", "cb", "info", "txlink")]
        self.tx = [e for e in self.ev if e.kind == "tx"]
        self.res = [e for e in self.ev if e.kind == "res"]

    def known(self, addr):
        return 1024 <= addr < 1024 + self.n

    def accepted(self, pos, a):
        """is the solicited response marked at stream0[pos] accepted by the task of association a?
        (the notifications that follow it at the same instant say so)"""
        t = self.stream0[pos].t
        for e in self.stream0[pos + 1:]:
            if e.t != t or e.kind in ("rx", "closed"):
                break
            if e.kind == "info" and int(e.f[2]) == a:
                if e.f[3] == "ok": return True
                if e.f[3] == "fail" and e.f[5] in ("unexpected-headers", "malformed"): return True
            if e.kind == "cb" and int(e.f[2]) == a and e.f[3] != "unsol": return True
        # a time synchronisation that goes on with its WRITE of g50 accepted the first response
        direct = any(x.kind == "info" and x.t == t and x.f[3] == "start" and x.f[4] == "time-sync" and x.f[5] == "2"
                     for x in self.stream0[max(0, pos - 8):pos + 8])
        if not direct:
            for b in self.tx_at(t):
                if len(b) >= 6 and b[1] == 2 and b[2] == 0x32 and b[3] in (1, 3) and b[4] == 7 and b[5] == 1:
                    return True
        return False

    def user_links_pending(self, a, t):
        """user link status requests of association a submitted by t and not answered before t"""
        done = {int(e.f[2]): e.t for e in self.res}
        return [o for ts, o in self.ops if o[0] == "user" and int(o[1]) == a and o[3] == "link" and ts <= t
                and done.get(int(o[2]), 1 << 62) >= t]

    def tx_at(self, t):
        return [bytes.fromhex(e.f[2]) for e in self.tx if e.t == t and e.f[2] != "-"]


DUR_LIMIT = (1 << 64) * 10 ** 9       # first value (ns) a Rust Duration cannot hold


def backoff_oracle(case, impl):
    """ExponentialBackOff called directly: the delays start at min, double, are capped at max (also
    when doubling overflows a Duration) and start over after a success"""
    fails = []
    def ns(x):
        a, b = x.split(":"); return int(a) * 10 ** 9 + int(b)
    ops = [l.split() for l in case.script.splitlines()[1:] if l.startswith("backoff")]
    lines = [l.split() for l in impl if l.startswith("delays")]
    if len(ops) != len(lines):
        return [("backoff", "expected %d delay lines, saw %d" % (len(ops), len(lines)))]
    for o, l in zip(ops, lines):
        mn, mx, n = ns(o[1]), ns(o[2]), int(o[3])
        got = [ns(x) for x in l[1:1 + n]]
        if l[1 + n] != "reset" or ns(l[2 + n]) != mn:
            fails.append(("backoff", "after on_success the first delay is not min: " + " ".join(l)[:160]))
        for k, d in enumerate(got):
            want = mn if k == 0 else (min(2 * got[k - 1], mx) if 2 * got[k - 1] < DUR_LIMIT else mx)
            if d != want:
                fails.append(("backoff", "delay %d is %d ns, expected %d ns (min %d, max %d)" % (k, d, want, mn, mx)))
                break
            if mn <= mx and mn > 0 and not (mn <= d <= mx):
                fails.append(("backoff", "delay %d = %d ns outside [min, max]" % (k, d)))
                break
    return fails[:1]


def c17_oracle(case, impl):
    fails = machinery_failures(impl)
    if case.meta.get("kind") == "backoff":
        return fails + backoff_oracle(case, impl)
    if not any(l.startswith("conn") for l in impl):
        return fails
    tl = Timeline(case, impl)
    n = tl.n
    st = [dict(dis=False, integ=False, gate=False, en=False, clear=False, expect_clear=False,
               fails={}, last_fail={}) for _ in range(n)]
    last_start_line = None      # the last start/txlink/conn/closed before the current line
    since_fail_other = {}       # (a, K) -> something else started since the failure

    def bad(clause, text, e):
        fails.append((clause, "%s [%s]" % (text, e.line)))

    for pos, e in enumerate(tl.stream0):
        if e.kind == "closed":
            for s in st:
                s.update(dis=False, integ=False, gate=False, en=False, clear=False, expect_clear=False, fails={}, last_fail={})
            since_fail_other.clear()
            continue
        if e.kind == "conn":
            for k in list(since_fail_other): since_fail_other[k] = True
            continue
        if e.kind == "rx":
            f = tl.rx.get(id(e))
            src = int(e.f[2])
            if f is None or not tl.known(src):
                continue
            a = src - 1024
            s, c = st[a], tl.assocs[a]
            if f["fc"] == 0x82 or tl.accepted(pos, a):
                # Association::process_iin
                if f["iin1"] & IIN1_RESTART and not s["clear"]:
                    s.update(clear=True, integ=False, gate=False, en=False, expect_clear=True)
                if f["iin2"] & IIN2_OVERFLOW and c.ovf:
                    s["integ"] = False
            if f["fc"] == 0x82:
                # ---- gating of unsolicited responses
                data = len(f["objs"]) > 0
                delivered = any(x.kind == "cb" and x.t == e.t and int(x.f[2]) == a and x.f[3] == "unsol" for x in tl.stream0[pos:])
                noted = any(x.kind == "info" and x.t == e.t and int(x.f[2]) == a and x.f[3] == "unsol" for x in tl.stream0[pos:])
                confirmed = bytes([0xD0 | f["seq"], 0]) in tl.tx_at(e.t)
                open_gate = (c.integ & 15) == 0 or s["gate"]
                if data and not open_gate and (delivered or noted or confirmed):
                    bad("unsol-gated", "data-bearing unsolicited response from association %d %s before its integrity poll completed"
                        % (a, "delivered" if delivered else "confirmed" if confirmed else "accepted"), e)
                if not data:
                    if not noted:
                        bad("unsol-empty-accepted", "empty unsolicited response from association %d was not accepted" % a, e)
                    elif f["con"] and not confirmed:
                        bad("unsol-empty-confirmed", "empty unsolicited response from association %d was not confirmed" % a, e)
                if data and open_gate and objects_parse(f["objs"]):
                    if not noted:
                        bad("unsol-after-integrity", "unsolicited data from association %d ignored although the integrity poll had completed" % a, e)
                    elif f["con"] and not confirmed:
                        bad("unsol-after-integrity", "accepted unsolicited response from association %d not confirmed" % a, e)
            continue
        if e.kind == "txlink":
            a = int(e.f[2])
            if tl.user_links_pending(a, e.t):
                for k in list(since_fail_other): since_fail_other[k] = True
                continue
            kind = "keep-alive"
        elif e.kind == "info" and e.f[3] == "start":
            a, kind = int(e.f[2]), e.f[4]
        else:
            kind = None
        if kind is not None:
            s, c = st[a], tl.assocs[a]
            # ---- order of the start-up and restart tasks
            if kind in ("disable-unsol", "integrity", "enable-unsol", "event-scan", "poll", "keep-alive"):
                if s["clear"]:
                    bad("restart-order", "%s of association %d started while a restart indication was not cleared yet" % (kind, a), e)
                if s["expect_clear"]:
                    bad("restart-order", "restart indication of association %d seen, but %s ran before clear-restart" % (a, kind), e)
            if kind == "clear-restart":
                s["expect_clear"] = False
            if kind in ("integrity", "enable-unsol", "event-scan", "poll", "keep-alive") and (c.dis & 7) and not s["dis"]:
                bad("startup-order", "%s of association %d started before DISABLE_UNSOLICITED was done in this connection" % (kind, a), e)
            if kind in ("enable-unsol", "event-scan", "poll", "keep-alive") and (c.integ & 15) and not s["integ"]:
                bad("startup-order", "%s of association %d started before the integrity poll completed" % (kind, a), e)
            if kind in ("event-scan", "poll", "keep-alive") and (c.en & 7) and not s["en"]:
                bad("startup-order", "%s of association %d started before ENABLE_UNSOLICITED was done" % (kind, a), e)
            # ---- retry delays
            if kind in AUTO_TYPES and not (kind == "time-sync" and tl.silent_tsync):
                j = s["fails"].get(kind, 0)
                if j > 0:
                    due = s["last_fail"][kind] + nth_delay(c.rmin, c.rmax, j - 1)
                    if e.t < due:
                        bad("retry-delay", "%s of association %d retried at %d, before %d = failure %d at %d + delay"
                            % (kind, a, e.t, due, j, s["last_fail"][kind]), e)
                    elif e.t > due and not since_fail_other.get((a, kind), True):
                        bad("retry-delay", "%s of association %d retried at %d although nothing else ran since its failure %d at %d; due at %d"
                            % (kind, a, e.t, j, s["last_fail"][kind], due), e)
            for k in list(since_fail_other): since_fail_other[k] = True
            continue
        if e.kind == "info" and e.f[3] in ("ok", "fail"):
            a, kind = int(e.f[2]), e.f[4]
            s, c = st[a], tl.assocs[a]
            err = e.f[5] if e.f[3] == "fail" else None
            # the response that ended the task, if any
            resp = None
            for x in reversed(tl.stream0[:pos]):
                if x.t != e.t: break
                if x.kind == "rx":
                    resp = tl.rx.get(id(x)); break
            restart_still_set = bool(resp and resp["iin1"] & IIN1_RESTART)
            success = err is None
            if kind in ("enable-unsol", "disable-unsol") and err == "iin2":
                success = True
            if kind == "clear-restart":
                if err == "iin2": success = not restart_still_set
                elif err is None: success = not restart_still_set
            if kind in AUTO_TYPES:
                if success:
                    s["fails"][kind] = 0
                else:
                    s["fails"][kind] = s["fails"].get(kind, 0) + 1
                    s["last_fail"][kind] = e.t
                    since_fail_other[(a, kind)] = False
            if success:
                if kind == "disable-unsol": s["dis"] = True
                if kind == "integrity": s["integ"] = True; s["gate"] = True
                if kind == "enable-unsol": s["en"] = True
                if kind == "clear-restart": s["clear"] = False
    # one representative per clause keeps the report readable
    seen, out = set(), []
    for c_, d in fails:
        if c_ not in seen:
            seen.add(c_); out.append((c_, d))
    return out


class C17(Prop):
    id = "C17"
    translators = ["gen_master_tables"]
    proof_targets = ["Master/BackoffProofs.vo", "Master/AssocProofs.vo", "Master/SchedProofs.vo", "Master/TablesAgree.vo",
                     "Master/MSFullProofs.vo"]
    property_file = "Properties/C17.v"
    theorems = []
    modelled = ("modelled by hand: master/association.rs (AutoTaskState, TaskStates, Association, AssociationMap), "
                "master/poll.rs, master/task.rs (run loop as an event-driven step function), master/tasks/{auto,time}.rs, "
                "app/retry.rs (Master/{Backoff,Assoc,Sched}.v); received fragments abstracted to header fields (read by the "
                "engine's glue in the first pass, computed in Coq from the octets - Master/MSFull.v - in the second), "
                "xxh64 digest = object bytes, Instant overflow not modelled")
    rule = ("msched scripts: 1..3 associations with random automatic-task configuration and retry strategy; "
            "responses to the outstanding request are derived from the model state (right source and sequence) and "
            "then perturbed (IIN restart/need-time/overflow/events, wrong sequence/source, missing FIN, IIN2 errors, "
            "malformed objects, silence until time-out), unsolicited responses with and without data before and "
            "after the integrity poll, reconnects/disable/enable at any step, sleeps at t-1/t/t+1 of every deadline; "
            "plus the direct correspondence of Backoff.v with app::retry (exhaustive small, random near overflow); "
            "non-trivial = at least one task start besides the first")
    flavour = "startup"

    def cases(self, rng, tier):
        n = 420 if tier == "quick" else 6000
        abstract, metas = [], {}
        for i in range(n):
            sid = "%s_%d" % (self.id.lower(), i)
            g = Gen(rng, self.flavour)
            abstract.append(g.script(sid, rng.choice([8, 15, 25, 40, 60])))
            metas[sid] = {"kind": self.flavour + "-n%d" % g.n}
        conc = concretize(self.id, abstract)
        out = [Case(sid, conc[sid], metas[sid]) for sid in metas]
        if self.id == "C17":
            for name, ops in backoff_cases(rng, 60 if tier == "quick" else 2000):
                sid = "c17_backoff_%s" % name
                out.append(Case(sid, script_text(sid, "msched", {"n": 1}, ops), {"kind": "backoff"}))
        return out

    def canon(self, lines, side):
        return [l for l in lines if not l.startswith("wakes ")]

    # ---- second model pass: engine `msfull` (coq/Master/MSFull.v) ----
    # Engine `msched` turns a received fragment into the record the scheduling model consumes (header fields, whether
    # the objects parse, number of measurement values, delay of a lone g52v2) with a hand-written three-form object
    # grammar in its OCaml glue.  Engine `msfull` runs the same model on the same script with that record computed in
    # Coq from the octets (MParse + App/Grammar.v + the conversion model of C10): no parser in the glue.
    extra_name = "msfull"
    extra_what = ("scheduling model with the received fragment computed from the octets in Coq (`msfull`: header, "
                  "Grammar verdict, number of delivered values via the C10 conversion model, g52v2 delay), no parser in the glue")

    def extra_model_script(self, case, impl):
        """None: another engine, a back-off script (no fragment is received), the implementation panicked / stalled"""
        lines = [l for l in case.script.split("\n") if l.strip()]
        head = lines[0].split()
        if len(head) < 3 or head[2] != "msched" or case.meta.get("kind") == "backoff" or case.meta.get("impl_only"):
            return None
        if any(l.startswith("panic") or l.startswith("harness-died") or l == "missing" or l == "stall" for l in impl):
            return None
        return "\n".join([" ".join(head[:2] + ["msfull"] + head[3:])] + lines[1:])

    def extra_canon(self, lines, side):
        return self.canon(lines, side)

    def nontrivial(self, case, impl):
        return sum(1 for l in impl if " start " in l) > 1 or any(l.startswith("delays") for l in impl)

    def oracle(self, case, impl):
        return c17_oracle(case, impl)

    def finding_signature(self, case, clause, desc):
        return clause


PROP = C17()
