"""C15 — A master accepts only the answer to its question and confirms what it accepts."""
from propcheck import *
from mcommon import *

TIMEOUT = 1000
TASK_KINDS = ["do", "sbo", "restart", "empty", "deadband", "read", "auto"]
IIN2_REJECT = [1, 2, 4, 3, 7, 5]
IIN2_BENIGN = [0, 8, 16, 32, 0x38]


class Task:
    """one outstanding request as the generator predicts it"""
    def __init__(self, kind, seq, tok=None, hs=None):
        self.kind, self.seq, self.tok, self.hs = kind, seq, tok, hs
        self.nsteps = 2 if kind == "sbo" else 1


def start_task(s, rng, kind):
    """append the op that makes the (idle) master send a request; returns the predicted Task"""
    if kind == "do" or kind == "sbo":
        hs = rand_command(rng, 2, 2)
        while has_nan(hs):           # a NaN set-point never compares equal to its echo (IEEE ==)
            hs = rand_command(rng, 2, 2)
        tok = s.user(kind, *header_tokens(hs), meta={"headers": hs})
        return Task(kind, s.take_seq(), tok, hs)
    if kind == "restart":
        tok = s.user(rng.choice(["cold_restart", "warm_restart"]))
        return Task(kind, s.take_seq(), tok)
    if kind == "empty":
        fc = rng.choice([2, 7, 9, 15, 22])
        tok = s.user("empty", fc, "hdr:" + rng.choice(["3c0206", "1e0106", "1400000003", "0a02010000ff00"]))
        return Task(kind, s.take_seq(), tok)
    if kind == "deadband":
        tok = s.user("deadband", "34.1/8/%d=%s" % (rng.below(256), rng.bytes(2).hex()))
        return Task(kind, s.take_seq(), tok)
    if kind == "read":
        tok = s.user("read", rng.choice(["class:1", "class:15", "class:14", "hdr:1e0106", "hdr:0102000307", "hdr:1400010000ffff"]))
        return Task(kind, s.take_seq(), tok)
    raise ValueError(kind)


def good_objs(rng, task):
    """(objects, verdict items) of a response that completes a single-fragment task"""
    if task.kind in ("do", "sbo"):
        return encode_headers(task.hs), []
    if task.kind == "restart":
        return rng.choice([bytes([52, 1, 7, 1, 16, 0]), bytes([52, 2, 7, 1, 0x10, 0x27]), bytes([52, 2, 8, 1, 0, 5, 0])]), []
    if task.kind == "read":
        o = rand_objs(rng)
        return o.data, o.items
    return b"", []


def unsol_fragment(rng, seq=None, con=None, kind=None):
    """(fragment, verdict, items): a well-headed unsolicited response"""
    seq = rng.below(16) if seq is None else seq
    con = rng.chance(2, 3) if con is None else con
    kind = kind or rng.choice(["data", "data", "null", "bad"])
    c = ctrl(1, 1, con, 1, seq)
    iin1 = rng.choice([0, 0, 2, 0x0E])
    if kind == "null":
        return response(c, iin1, 0, b"", 0x82), "ok", []
    o = rand_objs(rng, 2)
    if kind == "bad":
        return response(c, iin1, 0, malformed(rng, o), 0x82), "bad", []
    return response(c, iin1, 0, o.data, 0x82), "ok", o.items


def garbage(rng):
    k = rng.below(5)
    if k == 0:
        return rng.bytes(1), "none"
    if k == 1:
        return bytes([0xC0 | rng.below(16), rng.choice([0x1F, 0x46, 0x83, 0xFF]), 0, 0]), "none"
    if k == 2:
        return bytes([0xC0 | rng.below(16), rng.choice([0, 1, 2, 13, 23])]), "ok"      # a request function code
    if k == 3:
        return bytes([0xC0 | rng.below(16), 0x81, rng.below(256)]), "none"          # IIN cut short
    return bytes([0xD0 | rng.below(16), 0x81, 0, 0]), "ok"                           # solicited with UNS


class C15(MasterProp):
    id = "C15"
    translators = ["gen_master_tables"]
    proof_targets = ["Master/MTaskProofs.vo", "Master/TablesAgree.vo", "Master/MFullProofs.vo"]
    property_file = "Properties/C15.v"
    theorems = []
    modelled = ("modelled by hand: master/task.rs (run_single_non_read_task, validate_non_read_response, "
                "execute_read_task, process_read_response, handle_unsolicited, confirm writing, reset), "
                "master/association.rs (sequence, LastUnsolFragment, auto task states, request queue), master/tasks/* "
                "(Master/MTask.v); object sections are opaque: the parser's verdict and the delivered items are oracle "
                "inputs of the receive event, checked against the real parser and the real ReadHandler callbacks on "
                "every fragment, and COMPUTED from the octets by the composed model of the second pass (Master/MFull.v: "
                "App/Grammar.v + the conversion model of C10); xxh64 digest = the bytes")
    rule = ("engine master over the mock transport (whole application fragments, H6 stamps the source address): one "
            "outstanding task of every kind (direct operate, select-operate, restart, empty-response, dead-band write, "
            "single/multi-fragment read, start-up auto tasks) or none, and a response stream mixing the correct "
            "response, every wrong sequence number, foreign sources, all FIR/FIN/CON/UNS combinations under both "
            "response functions, unsolicited responses (valid, null, malformed, duplicated) at every position, "
            "malformed objects, IIN2 rejections, garbage headers and silence; family `objects`: delivered fragments "
            "carrying every static and event variation, packed bits, octet strings, common time of occurrence (also "
            "overflowing, also with a count of two), absolute time, headers no handler is called for; a script is "
            "non-trivial when a request was written; the oracle reconstructs the outstanding request from the trace itself")

    # ---------------------------------------------------------------------------------------
    def noise(self, s, rng, task, n, gated=False):
        """fragments that must leave the outstanding task untouched"""
        for _ in range(n):
            k = rng.below(7)
            if k == 0 and task is not None:      # every wrong sequence number
                d = rng.range(1, 15)
                objs, items = good_objs(rng, task)
                s.rx(response(ctrl(1, 1, rng.chance(1, 2), 0, task.seq + d), 0, 0, objs))
            elif k == 1 and task is not None:    # right answer, wrong outstation
                objs, items = good_objs(rng, task)
                s.rx(response(ctrl(1, 1, rng.chance(1, 2), 0, task.seq), 0, 0, objs), src=rng.choice(FOREIGN))
            elif k == 2:
                f, v, items = unsol_fragment(rng)
                s.rx(f, v, items, intent="deliver" if v == "ok" and not gated else None)
                if rng.chance(1, 3):
                    s.rx(f, v, items)                # repeated: confirmed, not delivered again
            elif k == 3:
                f, v, items = unsol_fragment(rng)
                s.rx(f, v, items, src=rng.choice(FOREIGN))
            elif k == 4:
                s.sleep(rng.choice([0, 1, 10, 200]))
            elif k == 5 and task is not None and task.kind != "read":
                # a stale duplicate of an earlier answer
                s.rx(response(ctrl(1, 1, 0, 0, task.seq - 1), 0, 0, b""))
            else:
                s.sleep(0)

    def finish(self, s, rng, task):
        """the fragment (or silence) that ends a single-fragment task"""
        how = rng.choice(["good", "good", "good_con", "flags", "flags", "uns_func", "malformed", "iin2", "iin2_ok",
                          "silence", "garbage", "extra_objs"])
        objs, items = good_objs(rng, task)
        seq = task.seq
        if how in ("good", "good_con", "iin2_ok"):
            con = how == "good_con" or rng.chance(1, 4)
            iin2 = rng.choice(IIN2_BENIGN) if how == "iin2_ok" else 0
            iin1 = rng.choice([0, 0, 2, 0x10, 0x4E])
            if task.kind == "sbo":
                s.rx(response(ctrl(1, 1, con, 0, seq), iin1, iin2, objs), intent="continue")
                seq2 = s.take_seq()
                self.noise(s, rng, Task("do", seq2, task.tok, task.hs), rng.below(3))
                s.rx(response(ctrl(1, 1, rng.chance(1, 3), 0, seq2), 0, 0, objs), intent="complete")
            else:
                s.rx(response(ctrl(1, 1, con, 0, seq), iin1, iin2, objs), "ok", items, intent="complete")
            return "complete"
        if how == "flags":
            fir, fin, con = rng.choice([(0, 0, 0), (0, 1, 0), (1, 0, 0), (0, 0, 1), (0, 1, 1)]
                                       + ([] if task.kind == "read" else [(1, 0, 1)]))
            s.rx(response(ctrl(fir, fin, con, 0, seq), 0, 0, objs), "ok", [])
        elif how == "uns_func":
            # the unsolicited function code (with and without a consistent UNS bit) carrying the echo
            fir, fin, con, uns = rng.choice([(1, 1, 0, 0), (1, 0, 1, 1), (0, 1, 0, 1), (1, 1, 1, 0)])
            s.rx(response(ctrl(fir, fin, con, uns, seq), 0, 0, b"", 0x82), "ok", [])
        elif how == "malformed":
            o = rand_objs(rng, 2)
            s.rx(response(ctrl(1, 1, rng.chance(1, 2), 0, seq), 0, 0, malformed(rng, o)), "bad", [])
        elif how == "extra_objs":
            o = rand_objs(rng, 1)
            s.rx(response(ctrl(1, 1, 0, 0, seq), 0, 0, objs + o.data), "ok", (items + o.items) if task.kind == "read" else [],
                 intent="complete" if task.kind == "read" else None)
        elif how == "iin2":
            s.rx(response(ctrl(1, 1, rng.chance(1, 2), 0, seq), rng.choice([0, 0x80]), rng.choice(IIN2_REJECT), objs), "ok", [])
        elif how == "garbage":
            f, v = garbage(rng)
            s.rx(f, v, [], src=rng.choice([ADDR, ADDR, 7]))
        else:
            s.sleep(TIMEOUT + rng.choice([0, 1, 5]))
        return how

    def multi_read(self, s, rng):
        """a multi-fragment read with one thing going wrong (or nothing) at a chosen fragment"""
        tok = s.user("read", rng.choice(["class:1", "class:15", "hdr:1e0106"]))
        seq0 = s.take_seq()
        # the 4-bit sequence number wraps: series of 16 and more fragments meet their first sequence number again
        # (seeded change C15_b: "first fragment" computed as seq == first_seq)
        n = rng.range(1, 4) if rng.chance(4, 5) else rng.choice([15, 16, 17, 17, 18, 32, 33, 34])
        bad_at = rng.below(n) if rng.chance(2, 3) else n - 1
        how = rng.choice(["none", "none", "unsol", "seq", "src", "dup", "fir_again", "no_fir", "fin_no_con", "malformed",
                          "iin2", "silence", "garbage", "uns_bit", "extra_con"])
        for j in range(n):
            fir, fin = j == 0, j == n - 1
            con = (not fin) or (how == "extra_con")
            seq = (seq0 + j) & 15
            o = rand_objs(rng, 2)
            good = response(ctrl(fir, fin, con, 0, seq), rng.choice([0, 2]), 0, o.data)
            if j == bad_at and how != "none":
                if how == "unsol":
                    f, v, items = unsol_fragment(rng)
                    s.rx(f, v, items, intent="deliver" if v == "ok" else None)
                    if rng.chance(1, 2):
                        s.rx(f, v, items)
                elif how == "seq":
                    s.rx(response(ctrl(fir, fin, con, 0, seq + rng.range(1, 15)), 0, 0, o.data), "ok", o.items)
                elif how == "src":
                    s.rx(good, "ok", o.items, src=rng.choice(FOREIGN))
                elif how == "dup" and j > 0:
                    s.rx(response(ctrl(j == 1, False, True, 0, seq - 1), 0, 0, o.data), "ok", o.items)
                elif how in ("fir_again", "no_fir", "fin_no_con", "malformed", "iin2", "garbage", "uns_bit", "silence"):
                    if how == "fir_again" and j > 0:
                        s.rx(response(ctrl(1, fin, con, 0, seq), 0, 0, o.data), "ok", [])
                    elif how == "no_fir" and j == 0:
                        s.rx(response(ctrl(0, fin, con, 0, seq), 0, 0, o.data), "ok", [])
                    elif how == "fin_no_con":
                        s.rx(response(ctrl(fir, 0, 0, 0, seq), 0, 0, o.data), "ok", [])
                    elif how == "malformed":
                        s.rx(response(ctrl(fir, fin, con, 0, seq), 0, 0, malformed(rng, o)), "bad", [])
                    elif how == "iin2":
                        s.rx(response(ctrl(fir, fin, con, 0, seq), 0, rng.choice(IIN2_REJECT), o.data), "ok", [])
                    elif how == "garbage":
                        f, v = garbage(rng)
                        s.rx(f, v, [])
                    elif how == "uns_bit":
                        s.rx(response(ctrl(fir, fin, con, 1, seq), 0, 0, o.data), "ok", [])
                    elif how == "silence":
                        s.sleep(TIMEOUT + rng.choice([0, 3]))
                    else:
                        s.rx(good, "ok", o.items, intent="complete" if fin else "deliver")
                        if not fin:
                            s.take_seq()
                        continue
                    # the read is over: a later fragment of the series is nobody's answer
                    s.seq = s.seq  # the accepted fragments before already advanced the prediction
                    if rng.chance(1, 2):
                        s.rx(good, "ok", o.items)
                    return
            s.rx(good, "ok", o.items, intent="complete" if fin else "deliver")
            if not fin:
                s.take_seq()

    def retry_family(self, s, rng):
        """start-up auto tasks ENABLED; unsolicited fragments (data, null, malformed) arrive before / during /
        after the start-up integrity poll and are retried byte-identically later.  A fragment that was ignored
        (gated by the start-up sequence, malformed) must not count as "seen": its retry is a first delivery."""
        s.cfg.update({"disable_unsol": rng.choice([7, 0, 0]), "integrity": rng.choice([15, 1, 14]),
                      "enable_unsol": rng.choice([7, 0]), "retry_min": 100, "retry_max": 400})
        pend = []            # fragments seen so far: [frag, verdict, items, accepted_before]
        last = [None]        # the fragment accepted last

        def unsol(phase_open, frag=None):
            """one unsolicited fragment now; phase_open = the integrity poll has completed"""
            if frag is None:
                kind = rng.choice(["data", "data", "null", "bad"])
                f, v, items = unsol_fragment(rng, kind=kind)
                frag = [f, v, items]
                pend.append(frag)
            f, v, items = frag
            acceptable = v == "ok" and (phase_open or len(f) == 4)
            intent = None
            if acceptable:
                intent = "deliver" if last[0] != f else None
                last[0] = f
            s.rx(f, v, items, intent=intent)

        def retries(phase_open):
            for fr in list(pend):
                if rng.chance(2, 3):
                    unsol(phase_open, fr)
                    if rng.chance(1, 3):
                        unsol(phase_open, fr)       # and once more: now a true repeat if it was accepted

        def some(phase_open):
            for _ in range(rng.range(0, 2)):
                unsol(phase_open)
            if rng.chance(1, 2):
                retries(phase_open)

        # before: DISABLE_UNSOLICITED outstanding (when configured)
        if s.cfg["disable_unsol"]:
            seq = s.take_seq()
            some(False)
            s.rx(response(ctrl(1, 1, rng.chance(1, 3), 0, seq), 0, 0, b""), intent="complete")
        # during: the integrity poll is outstanding
        seq = s.take_seq()
        for _ in range(rng.range(1, 2)):
            unsol(False)
        if rng.chance(1, 2):
            retries(False)
        o = rand_objs(rng, 2)
        if rng.chance(1, 3):
            s.rx(response(ctrl(1, 0, 1, 0, seq), 0, 0, o.data), "ok", o.items, intent="deliver")
            seq = s.take_seq()
            if rng.chance(1, 2):
                retries(False)                          # still during: the series is not finished
            o = rand_objs(rng, 1)
            s.rx(response(ctrl(0, 1, 0, 0, seq), 0, 0, o.data), "ok", o.items, intent="complete")
        else:
            s.rx(response(ctrl(1, 1, rng.chance(1, 3), 0, seq), 0, 0, o.data), "ok", o.items, intent="complete")
        # after: the outstation retries what was not confirmed, byte for byte
        if s.cfg["enable_unsol"]:
            seq = s.take_seq()
            if rng.chance(1, 2):
                retries(True)                           # while ENABLE_UNSOLICITED is outstanding
            s.rx(response(ctrl(1, 1, 0, 0, seq), 0, 0, b""), intent="complete")
        retries(True)
        some(True)
        if rng.chance(1, 3):
            # the outstation restarts: IIN1.7 in a null unsolicited response closes the gate again
            f = response(ctrl(1, 1, 1, 1, rng.below(16)), 0x80, 0, b"", 0x82)
            s.rx(f, "ok", [], intent="deliver" if last[0] != f else None)
            last[0] = f
            seq = s.take_seq()                          # clear restart
            unsol(False)
            s.rx(response(ctrl(1, 1, 0, 0, seq), 0, 0, b""), intent="complete")
            seq = s.take_seq()                          # integrity poll again
            retries(False)
            s.rx(response(ctrl(1, 1, 0, 0, seq), 0, 0, b""), "ok", [], intent="complete")
            if s.cfg["enable_unsol"]:
                seq = s.take_seq()
                s.rx(response(ctrl(1, 1, 0, 0, seq), 0, 0, b""), intent="complete")
            retries(True)
        s.sleep(rng.choice([5, 50]))

    def cases(self, rng, tier):
        n = 420 if tier == "quick" else 6000
        out = []
        for i in range(n):
            sid = "c15_%d" % i
            fam = rng.choice(["single", "single", "single", "multi", "multi", "idle", "startup", "restart_iin", "seqsweep",
                              "flagsweep", "retry", "retry"])
            cfg = {"timeout": TIMEOUT}
            if rng.chance(1, 6):
                cfg["decode"] = rng.choice([1, 2, 3])
            s = Script(sid, cfg)
            if fam == "single":
                for _ in range(rng.range(1, 2)):
                    task = start_task(s, rng, rng.choice(["do", "sbo", "restart", "empty", "deadband", "read"]))
                    self.noise(s, rng, task, rng.below(4))
                    how = self.finish(s, rng, task)
                    if how == "complete" and rng.chance(1, 2):
                        # the answer again: now stale
                        s.rx(response(ctrl(1, 1, 1, 0, task.seq), 0, 0, b""))
                s.sleep(TIMEOUT + 10)
            elif fam == "multi":
                self.multi_read(s, rng)
                s.sleep(TIMEOUT + 10)
            elif fam == "idle":
                # nothing outstanding: solicited responses are nobody's answer
                for _ in range(rng.range(2, 6)):
                    k = rng.below(4)
                    if k == 0:
                        o = rand_objs(rng, 1)
                        s.rx(response(ctrl(1, 1, rng.chance(1, 2), 0, rng.below(16)), 0, 0, o.data), "ok", o.items,
                             src=rng.choice([ADDR, ADDR, 9]))
                    elif k == 1:
                        f, v, items = unsol_fragment(rng)
                        s.rx(f, v, items, intent="deliver" if v == "ok" else None)
                        if rng.chance(1, 2):
                            s.rx(f, v, items)
                    elif k == 2:
                        f, v = garbage(rng)
                        s.rx(f, v, [])
                    else:
                        s.sleep(rng.choice([0, 5]))
            elif fam == "startup":
                # start-up auto tasks outstanding; unsolicited data is gated until the integrity poll is done
                s.cfg.update({"disable_unsol": rng.choice([7, 1, 5]), "integrity": rng.choice([15, 1]),
                              "enable_unsol": rng.choice([7, 2, 0]), "retry_min": 100, "retry_max": 400})
                seq = s.take_seq()                       # DISABLE_UNSOLICITED goes out when the association is added
                t = Task("auto", seq)
                self.noise(s, rng, t, rng.below(3), gated=True)
                how = rng.choice(["good", "good", "con", "flags", "iin2", "silence", "wrongseq"])
                if how in ("good", "con"):
                    s.rx(response(ctrl(1, 1, how == "con", 0, seq), 0, 0, b""), intent="complete")
                    seq = s.take_seq()                   # integrity poll
                    f, v, items = unsol_fragment(rng, kind="data")
                    s.rx(f, v, items)                    # gated: not delivered, not confirmed
                    f, v, items = unsol_fragment(rng, kind="null")
                    s.rx(f, v, items, intent="deliver")
                    o = rand_objs(rng, 2)
                    if rng.chance(1, 2):
                        s.rx(response(ctrl(1, 0, 1, 0, seq), 0, 0, o.data), "ok", o.items, intent="deliver")
                        seq = s.take_seq()
                        o = rand_objs(rng, 2)
                        s.rx(response(ctrl(0, 1, rng.chance(1, 2), 0, seq), 0, 0, o.data), "ok", o.items, intent="complete")
                    else:
                        s.rx(response(ctrl(1, 1, 0, 0, seq), 0, 0, o.data), "ok", o.items, intent="complete")
                    if s.cfg["enable_unsol"]:
                        seq = s.take_seq()
                        s.rx(response(ctrl(1, 1, rng.chance(1, 2), 0, seq), 0, 0, b""), intent="complete")
                    f, v, items = unsol_fragment(rng, kind="data")
                    s.rx(f, v, items, intent="deliver")
                elif how == "flags":
                    s.rx(response(ctrl(1, 0, 1, 0, seq), 0, 0, b""))
                    s.sleep(120)
                elif how == "iin2":
                    s.rx(response(ctrl(1, 1, 0, 0, seq), 0, rng.choice(IIN2_REJECT), b""))
                elif how == "wrongseq":
                    s.rx(response(ctrl(1, 1, 0, 0, seq + rng.range(1, 15)), 0, 0, b""))
                    s.sleep(TIMEOUT + 150)
                else:
                    s.sleep(TIMEOUT + 150)
                s.sleep(rng.choice([10, 500, 1200]))
            elif fam == "retry":
                self.retry_family(s, rng)
            elif fam == "restart_iin":
                # IIN1.7 in an accepted response starts the clear-restart auto task
                task = start_task(s, rng, rng.choice(["empty", "restart", "read"]))
                objs, items = good_objs(rng, task)
                s.rx(response(ctrl(1, 1, rng.chance(1, 2), 0, task.seq), 0x80, 0, objs), "ok", items, intent="complete")
                seq = s.take_seq()
                t = Task("auto", seq)
                self.noise(s, rng, t, rng.below(3))
                k = rng.below(4)
                if k == 0:
                    s.rx(response(ctrl(1, 1, rng.chance(1, 2), 0, seq), 0, 0, b""), intent="complete")
                elif k == 1:
                    s.rx(response(ctrl(1, 1, 0, 0, seq), 0x80, 0, b""), intent="complete")   # bit still set: retried later
                    s.sleep(1100)
                elif k == 2:
                    s.rx(response(ctrl(1, 1, 1, 0, seq), 0, rng.choice(IIN2_REJECT), b""))
                else:
                    s.sleep(TIMEOUT + 5)
                s.sleep(rng.choice([5, 1200]))
            elif fam == "seqsweep":
                # every sequence number against one outstanding request (also across the 15 -> 0 wrap)
                pre = rng.below(16)
                for _ in range(pre):
                    t0 = start_task(s, rng, "empty")
                    s.rx(response(ctrl(1, 1, 0, 0, t0.seq), 0, 0, b""), intent="complete")
                task = start_task(s, rng, rng.choice(["do", "empty", "read", "restart"]))
                objs, items = good_objs(rng, task)
                order = list(range(16))
                rng.shuffle(order)
                for q in order:
                    if q == task.seq:
                        continue
                    s.rx(response(ctrl(1, 1, rng.chance(1, 2), 0, q), 0, 0, objs), "ok", items)
                s.rx(response(ctrl(1, 1, rng.chance(1, 2), 0, task.seq), 0, 0, objs), "ok", items, intent="complete")
            else:
                # every control octet flag combination under both response function codes
                func = rng.choice([0x81, 0x82])
                for bits in range(16):
                    task = start_task(s, rng, rng.choice(["empty", "do", "read"]))
                    fir, fin, con, uns = bits >> 3 & 1, bits >> 2 & 1, bits >> 1 & 1, bits & 1
                    objs, items = good_objs(rng, task)
                    if func == 0x82:
                        o = rand_objs(rng, 1)
                        objs, items = o.data, o.items
                    accepted = (func == 0x81 and fir and fin and not uns) or (func == 0x82 and fir and fin and uns)
                    first_of_series = func == 0x81 and not uns and task.kind == "read" and fir and not fin and con
                    s.rx(response(ctrl(fir, fin, con, uns, task.seq), 0, 0, objs, func), "ok",
                         items if (accepted or first_of_series) else [],
                         intent=("complete" if func == 0x81 else "deliver") if accepted else None)
                    if func == 0x82 or not accepted:
                        if func == 0x82 and accepted:
                            # the task is still waiting: answer it
                            objs2, items2 = good_objs(rng, task)
                            s.rx(response(ctrl(1, 1, 0, 0, task.seq), 0, 0, objs2), "ok", items2, intent="complete")
                        elif first_of_series:
                            # a legal first fragment of a series: finish it
                            s.take_seq()
                            s.rx(response(ctrl(0, 1, 0, 0, task.seq + 1), 0, 0, b""), "ok", [], intent="complete")
            s.sleep(rng.choice([5, TIMEOUT + 20]))
            out.append(s.case(fam))
        # family `objects` (generated after the others so that their scripts do not depend on it): fragments that are
        # delivered to the ReadHandler carry objects from the WHOLE object library (mcommon.WideObjs: every static and
        # event variation, packed bits, octet strings, common time of occurrence, absolute time, headers no handler is
        # called for, dead-bands, g102, command events g13); the tokens are the generator's own reading of the octets, the composed
        # model `mfull` (second pass) must compute the same ones
        for i in range(90 if tier == "quick" else 1500):
            s = Script("c15_o%d" % i, {"timeout": TIMEOUT})
            kinds, unmodelled = self.objects_family(s, rng)
            s.sleep(rng.choice([5, TIMEOUT + 20]))
            out.append(s.case("objects", {"object_kinds": kinds, "outside_composed_model": unmodelled}))
        return out

    def objects_family(self, s, rng):
        kinds, unmodelled = [], False

        def objs(max_headers=3):
            nonlocal unmodelled
            o = wide_objs(rng, max_headers)
            kinds.extend(o.kinds)
            unmodelled = unmodelled or o.unmodelled
            return o

        for _ in range(rng.range(1, 3)):
            how = rng.choice(["read", "read", "unsol", "multi", "malformed"])
            if how == "read":
                s.user("read", rng.choice(["class:1", "class:15", "hdr:1e0106"]))
                seq = s.take_seq()
                o = objs()
                s.rx(response(ctrl(1, 1, rng.chance(1, 3), 0, seq), 0, 0, o.data), "ok", o.items, intent="complete")
            elif how == "unsol":
                o = objs()
                f = response(ctrl(1, 1, rng.chance(2, 3), 1, rng.below(16)), 0, 0, o.data, 0x82)
                s.rx(f, "ok", o.items, intent="deliver")
                if rng.chance(1, 3):
                    s.rx(f, "ok", o.items)              # a repeat: confirmed, not delivered
            elif how == "multi":
                # the common time of occurrence does not survive the end of a fragment
                s.user("read", "class:14")
                seq = s.take_seq()
                n = rng.range(2, 3)
                for j in range(n):
                    o = objs(2)
                    if j == 0 and rng.chance(1, 2):
                        o.add_cto(rng)
                    fin = j == n - 1
                    s.rx(response(ctrl(j == 0, fin, not fin, 0, seq), 0, 0, o.data), "ok", o.items,
                         intent="complete" if fin else "deliver")
                    if not fin:
                        seq = s.take_seq()
            else:
                s.user("read", "class:1")
                seq = s.take_seq()
                o = objs()
                s.rx(response(ctrl(1, 1, rng.chance(1, 2), 0, seq), 0, 0, malformed(rng, o)), "bad", [])
        return sorted(set(kinds)), unmodelled

    # ---------------------------------------------------------------------------------------
    def oracle(self, case, impl):
        fails = machinery_failures(impl)
        cfg, ops = parse_script(case.script)
        integrity_cfg = int(cfg.get("integrity", "0"))
        init, groups = split_trace(impl)
        link_tokens = [o[1] for o in ops if o[0] == "user" and o[2] == "link_status"]
        tr = Tracker(link_tokens)
        for t, w in init:
            tr.feed(t, w)
        intent = case.meta.get("intent", {})
        removed = False
        for k, lines in enumerate(groups):
            if k >= len(ops):
                fails.append(("trace-shape", "more steps in the trace than ops in the script"))
                break
            op = ops[k]
            pre = tr.cur.copy() if tr.cur is not None else None
            pre_unsol = tr.last_unsol
            pre_connected = tr.connected
            frag = None
            if op[0] == "rx":
                frag = bytes.fromhex(op[2]) if op[2] != "-" else b""
            if op[0] == "remove":
                removed = True
            for t, w in lines:
                tr.feed(t, w, frag)
            words = [w for t, w in lines]
            confirms = [bytes.fromhex(w[2]) for w in words if w[0] == "tx" and len(w) == 3 and w[2] != "-" and len(bytes.fromhex(w[2])) >= 2 and bytes.fromhex(w[2])[1] == 0]
            successes = [w for w in words if w[:2] == ["info", "task_success"]]
            res_ok = [w for w in words if w[0] == "res" and len(w) >= 3 and w[2] == "ok"]
            cbs = [w for w in words if w[0] == "cb"]
            unsol_info = [w for w in words if w[:2] == ["info", "unsolicited"]]
            pv = next((w[1] for w in words if w[0] == "pv"), None)
            where = "op %d (%s)" % (k, " ".join(op)[:90])

            if op[0] != "rx":
                if successes or res_ok:
                    fails.append(("completion-needs-response", "a task completed successfully without a response: " + where))
                if confirms:
                    fails.append(("confirm-exactly-once", "a CONFIRM was written without a received fragment: " + where))
                if cbs:
                    fails.append(("delivered-once", "measurement callbacks without a received fragment: " + where))
                continue

            h = Hdr(frag)
            src = int(op[1])
            if not pre_connected:
                if successes or res_ok or confirms or cbs:
                    fails.append(("reject-is-inert", "fragment without a connection had an effect: " + where))
                continue

            matching = False
            if h.ok and not h.unsol and pre is not None and not pre.link and src == ADDR and h.seq == pre.expected():
                matching = True
            flags_ok = False
            if matching:
                if pre.is_read:
                    flags_ok = (h.fir == (pre.frags == 0)) and (h.fin or h.con)
                else:
                    flags_ok = h.fir and h.fin
            accepted_sol = matching and flags_ok and not h.iin2_bad
            if accepted_sol and pre.is_read and (pv != "ok" or removed):
                accepted_sol = False

            # completion only by the matching response
            if successes or res_ok:
                if not (accepted_sol and h.fin):
                    fails.append(("completion-needs-matching-response",
                                  "a task completed successfully on a fragment that is not the answer to its request "
                                  "(hdr ok %s, unsol %s, src %d, seq %s, expected %s): %s"
                                  % (h.ok, getattr(h, "unsol", None), src, getattr(h, "seq", None),
                                     pre.expected() if pre else None, where)))
            # rejected fragments
            if h.ok and not h.unsol and not matching:
                bad = [w for w in words if w[0] in ("cb",) or w[:2] == ["info", "task_success"] or (w[0] == "res" and w[2] == "ok")]
                bad += [w for w in words if w[:2] == ["info", "task_fail"] and w[-1] != "timeout"]
                bad += [w for w in words if w[0] == "res" and w[2] == "err" and w[3] != "timeout"]
                if bad or confirms:
                    fails.append(("reject-is-inert", "a stale / foreign / unexpected response had an effect (%s): %s"
                                  % (" ".join((bad + [["confirm"]])[0]), where)))
            if (not h.ok) or (matching and not accepted_sol):
                if successes or res_ok or cbs:
                    fails.append(("reject-is-inert", "a malformed or mis-flagged fragment completed a task or reached the handler: " + where))

            # confirmation
            if h.ok and h.unsol:
                accepted_unsol = bool(unsol_info)
                if src == ADDR and not removed and pv == "ok" and (integrity_cfg == 0 or len(h.objs) == 0) and not accepted_unsol:
                    fails.append(("unsolicited-accepted", "an unsolicited response of the outstation was not processed: " + where))
                if (src != ADDR or removed) and (accepted_unsol or confirms or cbs):
                    fails.append(("reject-is-inert", "an unsolicited response from a foreign address had an effect: " + where))
                want = 1 if (accepted_unsol and h.con) else 0
                if len(confirms) != want:
                    fails.append(("confirm-exactly-once", "unsolicited fragment (CON=%d, accepted=%s): %d CONFIRMs written: %s"
                                  % (h.con, accepted_unsol, len(confirms), where)))
                elif want and confirms[0] != bytes([0xD0 | h.seq, 0]):
                    fails.append(("confirm-exactly-once", "CONFIRM %s does not carry the fragment's sequence and UNS bit: %s"
                                  % (confirms[0].hex(), where)))
                if accepted_unsol:
                    dup = pre_unsol == frag
                    if unsol_info[0][2] != ("1" if dup else "0"):
                        fails.append(("duplicate-unsolicited", "repeat detection wrong (fragment %s a repeat): %s"
                                      % ("is" if dup else "is not", where)))
                    want_cb = []
                    if not dup and pv == "ok":
                        want_cb = [["cb", "begin", "unsol", h.hdr_hex]] + [["cb", x] for x in op[4:]] + [["cb", "end", "unsol", h.hdr_hex]]
                    if cbs != want_cb:
                        fails.append(("duplicate-unsolicited" if dup else "delivered-once-in-order",
                                      "handler saw %d callbacks, expected %d: %s" % (len(cbs), len(want_cb), where)))
                if confirms and not cbs and not (accepted_unsol and pre_unsol == frag):
                    fails.append(("confirmed-not-delivered",
                                  "an unsolicited fragment was confirmed although it is not a repeat of the fragment accepted "
                                  "last and nothing reached the handler: " + where))
                if pv != "ok" and (confirms or accepted_unsol):
                    if True:
                        fails.append(("confirmed-not-delivered",
                                      "an unsolicited fragment whose objects could not be parsed was confirmed although "
                                      "nothing reached the handler: " + where))
            else:
                want = 1 if (accepted_sol and h.con) else 0
                if len(confirms) != want:
                    fails.append(("confirm-exactly-once", "solicited fragment (CON=%s, accepted=%s): %d CONFIRMs written: %s"
                                  % (getattr(h, "con", None), accepted_sol, len(confirms), where)))
                elif want and confirms[0] != bytes([0xC0 | h.seq, 0]):
                    fails.append(("confirm-exactly-once", "CONFIRM %s does not carry the fragment's sequence with UNS clear: %s"
                                  % (confirms[0].hex(), where)))
                # delivery of read fragments
                want_cb = []
                if accepted_sol and pre.is_read:
                    rt = cbs[0][2] if cbs and len(cbs[0]) > 2 else "single"
                    if rt not in ("single", "integrity"):
                        rt = "single"
                    want_cb = [["cb", "begin", rt, h.hdr_hex]] + [["cb", x] for x in op[4:]] + [["cb", "end", rt, h.hdr_hex]]
                if cbs != want_cb:
                    fails.append(("delivered-once-in-order", "handler saw %d callbacks, expected %d: %s" % (len(cbs), len(want_cb), where)))

            # liveness of the generator's intentions (a wrong prediction of the generator shows here)
            it = intent.get(str(k))
            if it == "complete" and not (successes):
                fails.append(("answer-accepted", "the matching response did not complete the task: " + where))
            if it == "continue" and not any(w[0] == "tx" and len(w) == 3 and bytes.fromhex(w[2])[1] == 4 for w in words):
                fails.append(("answer-accepted", "the faithful SELECT echo was not followed by OPERATE: " + where))
            if it == "deliver" and not cbs:
                fails.append(("answer-accepted", "an acceptable fragment was not delivered: " + where))
        fails += tr.errors[:1]
        return fails

    def nontrivial(self, case, impl):
        return any(" tx " in l for l in impl)

    def finding_signature(self, case, clause, desc):
        return clause


PROP = C15()
