"""Shared machinery of the properties decided on the outstation session (engine `outstation`):
request builders, the history generator, trace canonicalisation, the model-script derivation
(the session model consumes the answers of the session's environment recorded in the
implementation's trace) and helper views of a trace used by the oracles."""
import struct
from propcheck import *

MASTER = 1
FOREIGN = 7


# ---- request builders (independent of /repo) -------------------------------------------------

def ctl(seq, con=False, uns=False, fir=True, fin=True):
    return (0x80 if fir else 0) | (0x40 if fin else 0) | (0x20 if con else 0) | (0x10 if uns else 0) | (seq & 0x0F)

def frag(seq, fn, objs=b"", **kw):
    return bytes([ctl(seq, **kw), fn]) + objs

def read_classes(classes=(1, 2, 3, 0)):
    var = {1: 2, 2: 3, 3: 4, 0: 1}
    return b"".join(bytes([0x3C, var[c], 0x06]) for c in classes)

def g12v1(code=0x03, count=1, on=100, off=200, status=0):
    return struct.pack("<BBIIB", code, count, on, off, status)

def g41(var, value, status=0):
    if var == 1: return struct.pack("<iB", value, status)
    if var == 2: return struct.pack("<hB", value, status)
    if var == 3: return struct.pack("<fB", float(value), status)
    return struct.pack("<dB", float(value), status)

def control_header(group, var, items, wide=False):
    """items: list of (index, object bytes)"""
    out = bytes([group, var, 0x28 if wide else 0x17])
    out += struct.pack("<H", len(items)) if wide else bytes([len(items)])
    for idx, obj in items:
        out += (struct.pack("<H", idx) if wide else bytes([idx & 0xFF])) + obj
    return out

def write_iin(index=7, value=0):
    return bytes([0x50, 0x01, 0x00, index, index, value & 1])

def g50v1(t):
    return bytes([0x32, 0x01, 0x07, 0x01]) + t.to_bytes(6, "little")

def g50v3(t):
    return bytes([0x32, 0x03, 0x07, 0x01]) + t.to_bytes(6, "little")

FN = dict(confirm=0, read=1, write=2, select=3, operate=4, direct=5, direct_nr=6, freeze=7, freeze_nr=8,
          freeze_clear=9, freeze_clear_nr=10, freeze_at=11, freeze_at_nr=12, cold=13, warm=14, init_data=15,
          init_app=16, start_app=17, stop_app=18, save=19, enable=20, disable=21, assign=22, delay=23,
          record=24)


# ---- views of a trace -----------------------------------------------------------------------

def split_steps(trace):
    """[(op tokens, time, [lines of that step])], a first pseudo step 'start' holds the start-up"""
    steps = [(["start"], 0, [])]
    for l in trace:
        t = l.split()
        if len(t) >= 2 and t[1] == "op":
            steps.append((t[2:], int(t[0]), []))
        elif len(t) >= 2:
            steps[-1][2].append(l)
    return steps

def txs(lines):
    out = []
    for l in lines:
        t = l.split()
        if len(t) >= 4 and t[1] == "tx":
            out.append((int(t[0]), int(t[2]), bytes.fromhex(t[3]) if t[3] != "-" else b""))
    return out

def cbs(lines, name=None):
    out = []
    for l in lines:
        t = l.split()
        if len(t) >= 3 and t[1] == "cb" and not (len(t) > 2 and t[0] == ">"):
            if name is None or t[2] == name:
                out.append(t[2:])
    return out


class OutstationProp(Prop):
    translators = []
    modelled = ("modelled by hand: outstation/session.rs, control/select.rs, control/collection.rs echo, deferred.rs "
                "(Outstation/Session.v); environment answers (database replies, parser digest) are inputs recorded "
                "from the implementation through hooks H5/H6")

    def model_script(self, case, impl):
        head = case.script.split("\n", 1)[0]
        body = [l for l in impl if not l.startswith("panic") and not l.startswith("harness-died")]
        return "\n".join([head] + body + ["E"])

    def canon(self, lines, side):
        out = []
        skip_next_probe = None
        ls = list(lines)
        for i, l in enumerate(ls):
            t = l.split()
            if len(t) < 2:
                out.append(l); continue
            if t[1] in ("op", ">", "end"):
                continue
            if t[1].startswith("session-end"):
                out.append(t[0] + " session-end"); continue
            if t[1] == "db" and t[2] == "write_unsol" and side == "impl":
                # an unsolicited probe that found nothing is not compared (see DESIGN.md, select! note)
                nxt = ls[i + 1].split() if i + 1 < len(ls) else []
                if len(nxt) >= 4 and nxt[1] == ">" and nxt[2] == "unsol" and nxt[3] == "0":
                    continue
            out.append(l)
        return out

    # ---- second model pass: the composed outstation model (engine `ofull`, coq/Outstation/Full.v) ----
    # The composed model computes the parser digest (App/Grammar.v) and the database answers
    # (Outstation/Database.v) itself: its input is the ORIGINAL script, its output the whole trace of the
    # implementation including the `op`, `> digest`, `> <answer>`, `> cb ...`, `> txparse` and `end` lines.
    extra_what = "composed outstation model `ofull`: Grammar digest + Session + Database, nothing recorded"
    OFULL_OPS = {"rx": 4, "sleep": 2, "add": 4, "update": 6, "handler": 3, "appiin": 2, "disconnect": 1, "bounce": 1}
    OFULL_ADD_TYPES = ("binary", "double", "bos", "counter", "frozen", "analog", "aos", "octet")
    OFULL_UPDATE_TYPES = ("binary", "counter", "analog", "octet")     # what harness/outstation.rs implements

    def extra_model_script(self, case, impl):
        """the script for engine `ofull`, or None when the composed model does not cover the case:
        another engine; meta impl_only (huge fragments: the extracted session model needs minutes); the link
        keep-alive timer (keepalive_ms, not in Session.v); an op or point type outside the harness's
        vocabulary; the implementation panicked or stalled (reported by the oracle, nothing to compare).
        READ requests for device attributes (g0) or analog dead-bands (g34) are not in Database.v either: the
        model marks such a run itself (`model-unmodelled`, see extra_canon)."""
        lines = [l for l in case.script.split("\n") if l.strip()]
        head = lines[0].split()
        if len(head) < 3 or head[2] != "outstation" or case.meta.get("impl_only"):
            return None
        cfg = dict(kv.split("=", 1) for kv in head[3:] if "=" in kv)
        if cfg.get("keepalive_ms", "0") != "0":
            return None
        if any(l.startswith("panic") or l.startswith("harness-died") or l == "missing" for l in impl):
            return None
        for l in lines[1:]:
            t = l.split()
            if t == ["E"]:
                continue
            if self.OFULL_OPS.get(t[0]) != len(t):
                return None
            if t[0] == "add" and t[1] not in self.OFULL_ADD_TYPES:
                return None
            if t[0] == "update" and t[1] not in self.OFULL_UPDATE_TYPES:
                return None
        return "\n".join([" ".join(head[:2] + ["ofull"] + head[3:])] + lines[1:])

    def extra_canon(self, lines, side):
        """both sides verbatim except: the text after `session-end`; unsolicited probes that found nothing
        (`db write_unsol` answered `> unsol 0 -`: their number depends on tokio's select!, see canon).
        None = the model declared the script outside its domain."""
        out = []
        ls = list(lines)
        for i, l in enumerate(ls):
            t = l.split()
            if "model-unmodelled" in t:
                return None
            if len(t) >= 2 and t[1].startswith("session-end"):
                out.append(t[0] + " session-end"); continue
            if len(t) >= 3 and t[1] == "db" and t[2] == "write_unsol":
                nxt = ls[i + 1].split() if i + 1 < len(ls) else []
                if len(nxt) >= 4 and nxt[1] == ">" and nxt[2] == "unsol" and nxt[3] == "0":
                    continue
            if len(t) >= 4 and t[1] == ">" and t[2] == "unsol" and t[3] == "0":
                continue
            out.append(l)
        return out

    # ---- generator ---------------------------------------------------------------------------
    def base_cfg(self, rng, unsol=None):
        cfg = {"unsol": rng.below(2) if unsol is None else unsol,
               "soltx": rng.choice([249, 249, 300, 2048]),
               "confirm_ms": rng.choice([1000, 5000]),
               "select_ms": rng.choice([1000, 5000]),
               "retries": rng.choice(["none", "0", "1", "2"]),
               "retry_delay_ms": rng.choice([1000, 5000]),
               "sel": 0, "op": 0,
               "decode": rng.below(4)}
        if rng.chance(1, 6): cfg["anymaster"] = 1
        if rng.chance(1, 8): cfg["broadcast"] = 0
        if rng.chance(1, 6): cfg["maxctl"] = rng.range(1, 3)
        if rng.chance(1, 4): cfg["cold"] = rng.choice(["s:5", "ms:1000"])
        if rng.chance(1, 4): cfg["appiin"] = rng.below(16)
        if rng.chance(1, 4): cfg["delay"] = rng.choice([0, 1, 500, 65535])
        return cfg

    def rand_controls(self, rng, many=False):
        hdrs = []
        for _ in range(rng.range(1, 2)):
            wide = rng.chance(1, 3)
            kind = rng.choice([(12, 1), (41, 1), (41, 2), (41, 3), (41, 4)])
            n = rng.range(1, 3) if not many else rng.range(15, 30)
            items = []
            for _k in range(n):
                idx = rng.below(65536 if wide else 256)
                if kind[0] == 12:
                    obj = g12v1(code=rng.choice([0x01, 0x03, 0x04, 0x41, 0x81]), count=rng.below(4), on=rng.below(1000), off=rng.below(1000))
                else:
                    obj = g41(kind[1], rng.range(-100, 100))
                items.append((idx, obj))
            hdrs.append(control_header(kind[0], kind[1], items, wide))
        return b"".join(hdrs)

    def history(self, rng, cfg, focus):
        """a list of ops; focus biases the mix"""
        ops = []
        seq = rng.below(16)
        nclass = {1: 0, 2: 0, 3: 0}
        points = []
        for i in range(rng.range(1, 4)):
            typ = rng.choice(["binary", "analog", "counter"])
            cls = rng.below(4)
            ops.append(("add", typ, i, cls))
            points.append((typ, i, cls))
        last_req = None
        last_ctrl = None
        tstamp = 1000
        n = rng.range(4, 14)
        for _ in range(n):
            r = rng.below(100)
            src = MASTER
            bc = "none"
            if rng.chance(1, 12): src = FOREIGN
            if rng.chance(1, 14): bc = rng.choice(["opt", "mand", "notreq"])
            def rx(b, s=None, c=None):
                ops.append(("rx", s if s is not None else src, c if c is not None else bc, hexs(b)))
            if focus == "controls" and r < 55 or r < 12:
                objs = self.rand_controls(rng, many=rng.chance(1, 10))
                kind = rng.choice(["sbo", "sbo", "sbo-gap", "sbo-late", "sbo-wrongseq", "sbo-diff", "op-only", "direct", "direct_nr", "sbo-repeat", "sbo-retx-op", "sbo-xx", "sbo-fail-retx", "sbo-confirm", "sbo-confirm", "sbo-reconnect", "sbo-reconnect"])
                if kind.startswith("sbo"):
                    rx(frag(seq, FN["select"], objs), MASTER, "none")
                    if kind == "sbo-gap":
                        seq = (seq + 1) & 15
                        rx(frag(seq, FN["read"], read_classes((0,))), MASTER, "none")
                    if kind == "sbo-late":
                        ops.append(("sleep", cfg["select_ms"] + rng.choice([-2, -1, 0, 1, 2])))
                    if kind == "sbo-repeat":
                        rx(frag(seq, FN["select"], objs), MASTER, "none")
                    if kind == "sbo-confirm":
                        # stray confirms (solicited / unsolicited, any sequence) between SELECT and OPERATE
                        for _c in range(rng.range(1, 2)):
                            rx(frag(rng.below(16), FN["confirm"], uns=rng.chance(1, 2)), MASTER, "none")
                    if kind == "sbo-reconnect":
                        # the session ends between SELECT and OPERATE (link error, or the user disables and re-enables
                        # the outstation): no select survives into the next session (seeded change C04_c)
                        ops.append((rng.choice(["disconnect", "bounce", "bounce"]),))
                    if kind == "sbo-xx":
                        # another request and its retransmission between SELECT and OPERATE
                        x = frag(rng.below(16), rng.choice([FN["write"], FN["delay"], FN["disable"]]), b"")
                        rx(x, MASTER, "none"); rx(x, MASTER, "none")
                    if kind == "sbo-fail-retx":
                        # a later SELECT that the handler refuses, retransmitted, must not revive the old one
                        rx(frag((seq + 3) & 15, FN["read"], read_classes((0,))), MASTER, "none")
                        ops.append(("handler", 4, 0))
                        s2 = frag(seq, FN["select"], objs)
                        rx(s2, MASTER, "none"); rx(s2, MASTER, "none")
                        ops.append(("handler", 0, 0))
                    oseq = (seq + 1) & 15 if kind != "sbo-wrongseq" else (seq + rng.choice([0, 2, 5])) & 15
                    oobjs = objs if kind != "sbo-diff" else self.rand_controls(rng)
                    rx(frag(oseq, FN["operate"], oobjs), MASTER, "none")
                    if kind == "sbo-retx-op":
                        rx(frag(oseq, FN["operate"], oobjs), MASTER, "none")
                    seq = oseq
                elif kind == "op-only":
                    rx(frag(seq, FN["operate"], objs))
                elif kind == "direct":
                    rx(frag(seq, FN["direct"], objs))
                else:
                    rx(frag(seq, FN["direct_nr"], objs))
                last_req = None
                seq = (seq + 1) & 15
            elif r < 30:
                req = frag(seq, FN["read"], read_classes(rng.choice([(1, 2, 3, 0), (1,), (2, 3), (0,), (1, 2, 3)])))
                rx(req)
                last_req = req
                # maybe confirm (right / wrong / none), maybe repeat
                a = rng.below(6)
                if a == 0: rx(frag(seq, FN["confirm"]), MASTER, "none")
                elif a == 1: rx(frag((seq + 1) & 15, FN["confirm"]), MASTER, "none"); rx(frag(seq, FN["confirm"]), MASTER, "none")
                elif a == 2: rx(req, MASTER, "none"); rx(frag(seq, FN["confirm"]), MASTER, "none")
                elif a == 3: ops.append(("sleep", cfg["confirm_ms"] + rng.choice([-1, 0, 1])))
                elif a == 4: rx(frag(seq, FN["confirm"], uns=True), MASTER, "none")
                seq = (seq + 1) & 15
            elif r < 42:
                typ, idx, cls = rng.choice(points)
                tstamp += rng.below(50)
                val = {"binary": str(rng.below(2)), "analog": str(rng.range(-50, 50)), "counter": str(rng.below(100))}[typ]
                ops.append(("update", typ, idx, val, rng.choice([1, 1, 0x41]) if typ != "binary" else 1, tstamp))
            elif r < 50:
                ops.append(("sleep", rng.choice([1, 10, 999, 1000, 1001, 4999, 5000, 5001, 12000])))
            elif r < 58:
                which = rng.choice(["enable", "disable"])
                rx(frag(seq, FN[which], read_classes(rng.choice([(1,), (1, 2, 3), (2,), (3,), (0,)]))))
                seq = (seq + 1) & 15
            elif r < 64:
                # unsolicited confirm, right or wrong sequence (the generator does not know the sequence: try several)
                rx(frag(rng.below(16), FN["confirm"], uns=True), MASTER, "none")
            elif r < 70:
                req = frag(seq, FN["write"], rng.choice([write_iin(7, 0), write_iin(7, 1), write_iin(4, 0), g50v1(rng.below(1 << 48)),
                                                           write_iin(4, 0) + write_iin(7, 0), g50v3(rng.below(1 << 48)), g50v3((1 << 48) - 1)]))
                rx(req); last_req = req
                if rng.chance(1, 3): rx(req)
                seq = (seq + 1) & 15
            elif r < 76:
                req = frag(seq, rng.choice([FN["delay"], FN["record"], FN["cold"], FN["warm"], FN["freeze"], FN["freeze_nr"], FN["freeze_clear"],
                                            FN["init_data"], FN["save"], FN["assign"], FN["init_app"]]),
                           rng.choice([b"", b"", bytes([0x14, 0x00, 0x06]), read_classes((1,))]))
                rx(req); last_req = req
                if rng.chance(1, 3): rx(req)
                seq = (seq + 1) & 15
            elif r < 84:
                # malformed / unsupported
                bad = rng.choice([bytes([ctl(seq), 0x70]), bytes([ctl(seq)]), bytes([ctl(seq, fin=False), 0x01]) + read_classes((1,)),
                                  frag(seq, FN["read"], bytes([0x01])), frag(seq, FN["read"], bytes([0xEE, 0x01, 0x06])),
                                  frag(seq, FN["write"], bytes([0x50, 0x01, 0x00, 0x07])), bytes([ctl(seq, uns=True), 0x01]) + read_classes((1,)),
                                  frag(seq, 129, bytes([0, 0])), frag(seq, FN["select"], read_classes((1,)))])
                rx(bad)
                seq = (seq + 1) & 15
            elif r < 90:
                if last_req is not None:
                    if rng.chance(1, 2):
                        # something changes between the request and its retransmission
                        typ, idx, cls = rng.choice(points)
                        tstamp += 1
                        val = {"binary": str(tstamp & 1), "analog": str(tstamp), "counter": str(tstamp)}[typ]
                        ops.append(("update", typ, idx, val, 1, tstamp))
                    rx(last_req, MASTER, "none")
                else:
                    rx(frag(seq, FN["confirm"]), MASTER, "none")
            elif r < 94:
                ops.append((rng.choice(["disconnect", "disconnect", "bounce"]),))
            elif r < 97:
                ops.append(("handler", rng.choice([0, 0, 4, 7]), rng.choice([0, 0, 4, 6])))
            else:
                ops.append(("appiin", rng.below(16)))
        return ops

    def soup(self, rng, cfg):
        """a flat random walk over EVERY kind of op: any request kind (with and without response), its
        retransmission, confirms of both kinds with near-miss sequence numbers, broadcasts and foreign masters,
        updates, clock jumps around every configured timeout, disconnects - no structure assumed, so that
        combinations nobody thought of are generated too"""
        ops = [("add", "binary", 0, 1), ("add", "analog", 1, 2), ("add", "counter", 2, 3), ("add", "binary", 3, 0)]
        seq = rng.below(16)
        useq = 0
        t = 100
        last = None
        times = [1, 2, cfg.get("confirm_ms", 5000), cfg.get("select_ms", 5000), cfg.get("retry_delay_ms", 5000)]
        for _ in range(rng.range(6, 24)):
            r = rng.below(22)
            src = MASTER if not rng.chance(1, 15) else FOREIGN
            bc = "none" if not rng.chance(1, 15) else rng.choice(["opt", "mand", "notreq"])
            def rx(b):
                ops.append(("rx", src, bc, hexs(b)))
            if r == 0 and last is not None:
                rx(last)
            elif r == 1 and last is not None:
                ops.append(("rx", MASTER, "none", hexs(last)))
            elif r <= 3:
                k = rng.below(4); t += 1 + rng.below(30)
                typ = ["binary", "analog", "counter", "binary"][k]
                ops.append(("update", typ, k, str(t & 1) if typ == "binary" else str(t), 1, t))
            elif r <= 5:
                base = rng.choice(times)
                ops.append(("sleep", max(1, base + rng.choice([-2, -1, 0, 1, 2]))))
            elif r == 6:
                rx(frag(rng.choice([seq, (seq - 1) & 15, (seq + 1) & 15, rng.below(16)]), FN["confirm"]))
            elif r == 7:
                rx(frag(rng.choice([useq, (useq + 1) & 15, (useq - 1) & 15, rng.below(16)]), FN["confirm"], uns=True))
                useq = (useq + rng.below(2)) & 15
            elif r == 8:
                ops.append((rng.choice(["disconnect", "disconnect", "bounce"]),))
            elif r == 9:
                ops.append(("handler", rng.choice([0, 0, 0, 4]), rng.choice([0, 0, 0, 6])))
            else:
                kind = rng.choice(["read", "read", "write", "select", "operate", "direct", "direct_nr", "freeze", "freeze_nr", "freeze_clear_nr",
                                   "cold", "warm", "enable", "disable", "delay", "record", "init_data", "assign", "bad"])
                if kind == "read":
                    b = frag(seq, FN["read"], read_classes(rng.choice([(1, 2, 3, 0), (1, 2, 3), (0,), (1,), (2, 3)])))
                elif kind == "write":
                    b = frag(seq, FN["write"], rng.choice([write_iin(7, 0), write_iin(4, 0) + write_iin(7, 0), g50v1(rng.below(1 << 48)), g50v3(rng.below(1 << 40))]))
                elif kind in ("select", "operate", "direct", "direct_nr"):
                    objs = self.rand_controls(rng) if last is None or not rng.chance(1, 2) or len(last) < 3 or last[1] not in (3, 4, 5, 6) else last[2:]
                    b = frag(seq, FN[kind], objs)
                elif kind.startswith("freeze"):
                    b = frag(seq, FN[kind], bytes([0x14, 0x00, 0x06]))
                elif kind in ("enable", "disable"):
                    b = frag(seq, FN[kind], read_classes(rng.choice([(1, 2, 3), (1,), (2,), (3,), (0,)])))
                elif kind == "bad":
                    b = rng.choice([bytes([ctl(seq), 0x70]), bytes([ctl(seq)]), frag(seq, FN["read"], bytes([1])), bytes([ctl(seq, fin=False), 1]),
                                    frag(seq, 129, bytes([0, 0])), frag(seq, FN["write"], bytes([0x50, 1, 0, 7]))])
                else:
                    b = frag(seq, FN[kind])
                rx(b)
                last = b
                if not rng.chance(1, 4):
                    seq = (seq + 1) & 15
        return ops

    def cases_session(self, rng, n, focus=None, unsol=None, prefix="s"):
        out = []
        for i in range(n):
            cfg = self.base_cfg(rng, unsol)
            if focus is None and i % 2 == 1:
                ops = self.soup(rng, cfg)
                sid = "%s_%s_%d" % (self.id.lower(), prefix, i)
                out.append(Case(sid, script_text(sid, "outstation", cfg, ops), {"kind": "soup", "cfg": cfg}))
                continue
            ops = self.history(rng, cfg, focus)
            sid = "%s_%s_%d" % (self.id.lower(), prefix, i)
            out.append(Case(sid, script_text(sid, "outstation", cfg, ops), {"kind": focus or "mixed", "cfg": cfg}))
        return out

    def nontrivial(self, case, impl):
        return any(" tx " in l for l in impl)

    def common_fail(self, impl):
        fails = []
        for l in impl:
            if l.startswith("panic") or l.startswith("harness-died") or l == "missing":
                fails.append(("no-panic", "outstation task panicked or stalled: " + l[:200]))
        return fails


# ---- what a READ asked for, by group (direct oracle for "the response answers THIS request") ---------------
STATIC_GROUPS = {1, 3, 10, 20, 21, 30, 40, 110}
EVENT_GROUPS = {2, 4, 11, 22, 23, 32, 42, 111}


def read_allowed_groups(req):
    """groups of the objects a response to this READ request may carry (None when the request cannot be walked:
    only header-only qualifiers 0x06, 0x00/0x01 ranges and 0x07/0x08 counts occur in READ requests)"""
    allowed = set()
    i = 2
    while i < len(req):
        if i + 3 > len(req): return None
        g, v, q = req[i], req[i + 1], req[i + 2]
        i += 3
        if q == 0x06: pass
        elif q in (0x00, 0x07): i += 2 if q == 0x00 else 1
        elif q in (0x01, 0x08): i += 4 if q == 0x01 else 2
        else: return None
        if i > len(req): return None
        if g == 60:
            allowed |= STATIC_GROUPS if v == 1 else EVENT_GROUPS | {51}
        else:
            allowed.add(g)
            if g in (2, 4): allowed.add(51)
    return allowed


def response_groups(resp):
    """groups of the objects in a response fragment (None when it cannot be decoded)"""
    import dbcommon as D
    try:
        ev, st = D.decode_response(resp[4:])
    except Exception:
        return None
    return {e[0] for e in ev} | {x[0] for x in st}


def response_sequence_fails(impl, any_master=False):
    """in EVERY session state: when a well-formed request (not a CONFIRM) from the master is answered in the step in which
    it arrives, the first solicited response of that step carries the request's sequence number and FIR - unless the
    request is octet for octet the previous request (a retransmission, answered from memory).  Seeded change R7_w: a READ
    with the same object headers but the NEXT sequence number was taken for a retransmission during the confirm wait."""
    fails = []
    prev = None
    for op, t, lines in split_steps(impl):
        if op[0] in ("disconnect", "bounce"):
            prev = None
        if op[0] != "rx":
            continue
        b = bytes.fromhex(op[3]) if op[3] != "-" else b""
        dig = [l for l in lines if " > digest " in l]
        ok = bool(dig) and all(x in dig[0].split() for x in ("hp=ok", "rv=ok", "obj=ok"))
        if op[2] != "none" or not (any_master or int(op[1]) == MASTER) or len(b) < 2 or b[1] == 0 or not ok:
            if op[2] == "none" and (any_master or int(op[1]) == MASTER) and len(b) >= 2 and b[1] != 0:
                prev = None
            continue
        sol = [x for (_, _, x) in txs(lines) if len(x) >= 2 and x[1] == 129]
        if sol and prev != b:
            if (sol[0][0] & 15) != (b[0] & 15) or not (sol[0][0] & 0x80):
                fails.append(("response-sequence", "request %s (sequence %d, not a retransmission) was answered with %s (sequence %d, FIR %d)"
                              % (b.hex()[:16], b[0] & 15, sol[0].hex()[:12], sol[0][0] & 15, (sol[0][0] >> 7) & 1)))
        prev = b
    return fails
