"""C20 — The C/.NET/Java binding layer maps every value to its namesake, losslessly.

Two parts:
  * tables (proof): tools/gen/gen_ffi.py turns every conversion of ffi/dnp3-ffi/src into a Coq
    table; coq/Ffi/FfiProofs.v proves the namesake discipline over ALL of them.  The same tables
    are re-checked here in Python (engine `ffitable`, one case per table) so that a broken rule
    comes with a located failing input (file:line, arm / field) instead of only a failed proof.
  * database operations (correspondence, engine `ffi`): random operation lists are executed by
    /verif/harness_ffi (compiled into dnp3-ffi's test build through hook H4) once through the
    exported C functions `dnp3_database_*` and once through dnp3's native `Database` API on an
    identical second database; the oracle compares the `ffi` and `native` lines pairwise.
    There is no Coq model run for this engine (meta impl_only).
  * configuration conversions (same engine, operation `cfg <kind> <field>=<value> ...`): the harness
    fills the raw C struct of the binding (boundary values of every numeric field, distinct bit
    patterns for the boolean masks), calls the REAL conversion (`convert_outstation_config`,
    `TryFrom<ffi::AssociationConfig>`, ...) and prints the binding-side and the native-side field
    values; the oracle checks every native field against its NAMESAKE binding field under the
    documented reading of that field (table CFG_RULES below, derived from the doc strings of
    ffi/dnp3-schema/src).

The ffi engine lives in another test binary than the other engines, so this module carries its own
build-and-run code and installs it in place of propcheck.run_cases for this property only."""
import hashlib, json, os, shutil, struct, subprocess, urllib.parse
import propcheck
from propcheck import *

TARGET_FFI = os.path.join(CACHE, "target_ffi")
TABLES_JSON = os.path.join(CACHE, "gen", "FfiTables.json")
DELEG = ["@into", "@match", "@dispatch"]

# per point type: (static variations, event variations, has deadband)
TYPES = {
    "bi": (["Group1Var1", "Group1Var2"], ["Group2Var1", "Group2Var2", "Group2Var3"], False),
    "dbbi": (["Group3Var1", "Group3Var2"], ["Group4Var1", "Group4Var2", "Group4Var3"], False),
    "bos": (["Group10Var1", "Group10Var2"], ["Group11Var1", "Group11Var2"], False),
    "ctr": (["Group20Var1", "Group20Var2", "Group20Var5", "Group20Var6"],
            ["Group22Var1", "Group22Var2", "Group22Var5", "Group22Var6"], True),
    "fctr": (["Group21Var1", "Group21Var2", "Group21Var5", "Group21Var6", "Group21Var9", "Group21Var10"],
             ["Group23Var1", "Group23Var2", "Group23Var5", "Group23Var6"], True),
    "ai": (["Group30Var%d" % i for i in range(1, 7)], ["Group32Var%d" % i for i in range(1, 9)], True),
    "aos": (["Group40Var%d" % i for i in range(1, 5)], ["Group42Var%d" % i for i in range(1, 9)], True),
    "os": ([], [], False),
}
F64_POOL = ["0000000000000000", "8000000000000000", "3ff8000000000000", "4059000000000000", "c2225c17d0400000",
            "7ff8000000000000", "7ff0000000000000", "fff0000000000000", "0000000000000001", "40c3880000000000",
            "7fefffffffffffff", "4024000000000000", "4024000000000001"]
DEADBANDS = ["0000000000000000", "3ff0000000000000", "4014000000000000", "408f400000000000"]   # 0, 1, 5, 1000
FLAGS_POOL = [0, 1, 2, 0x41, 0x81, 0xff, 0x20, 0x10]
TIME_POOL = [0, 1, 1234567890123, (1 << 48) - 1, 1 << 48, (1 << 64) - 1]
DB_VALUES = ["Intermediate", "DeterminedOff", "DeterminedOn", "Indeterminate"]


# ------------------------------------------------------------------------------------------------
# configuration conversions: the documented reading of every field
#
# CFG_RULES[kind] = [(native field, binding field, rule, where the reading is documented)]
# The native field must equal the image of its NAMESAKE binding field under `rule`
# (binding fields whose name differs are the aliases the struct tables pin as well: address ->
# master_address, max_double_bit_binary -> max_double_binary, startup_integrity_classes.classN ->
# startup_integrity_classes.events.classN).  Rules (closed vocabulary, `cfg_expect`):
#   id            the same number / bool / variant name
#   ms            binding: count of milliseconds (DurationType::Milliseconds) -> native Duration, no loss
#   some          native field is an Option that is ALWAYS Some(binding value): `none` is never produced
#                 (the binding has no way to say "unlimited"; 0 is the limit 0)
#   ms0none       milliseconds, 0 = feature disabled (None)
#   s0none        binding: count of SECONDS (DurationType::Seconds), 0 = feature disabled (None)
#   timeout       milliseconds, must be a dnp3::app::Timeout: 1 ms ..= 1 h, else ParamError::InvalidTimeout
#   address       a link address that is not reserved (< 0xFFF0), else ParamError::InvalidDnp3Address
#   buf>=N        at least N bytes, else ParamError::InvalidBufferSize
#   none-is-none  enum whose variant `None` stands for the native Option::None, other variants by name
#   sockaddr      text of a socket address, else ParamError::InvalidSocketAddress
#   valid-flag-48 utc_timestamp: Some(lower 48 bits of value) when is_valid, else None
#   clamp>=1 / timeout-saturating
#                 what master/server.rs does to link_id_config (max(value,1); clamped into 1 ms ..= 1 h).
#                 NOT documented by the schema (the field docs say nothing about 0 or a range): accepted
#                 here so that the unchanged tree does not alarm, listed as `undocumented` in the evidence
U16, U32, U64 = (1 << 16) - 1, (1 << 32) - 1, (1 << 64) - 1
HOUR_MS = 3600 * 1000
_EB = ["max_binary", "max_double_bit_binary", "max_binary_output_status", "max_counter", "max_frozen_counter",
       "max_analog", "max_analog_output_status", "max_octet_string"]
_CZ = ["binary", "double_bit_binary", "binary_output_status", "counter", "frozen_counter", "analog",
       "analog_output_status", "octet_string"]
_FEAT = ["self_address", "broadcast", "unsolicited", "respond_to_any_master"]
_DL = [("application", ["Nothing", "Header", "ObjectHeaders", "ObjectValues"]), ("transport", ["Nothing", "Header", "Payload"]),
       ("link", ["Nothing", "Header", "Payload"]), ("physical", ["Nothing", "Length", "Data"])]


def _eb_rules(pre):
    doc = "outstation.rs define_event_buffer_config: 'Maximum number of ... events'"
    return [(pre + ("max_double_binary" if f == "max_double_bit_binary" else f), pre + f, "id", doc) for f in _EB]


def _cz_rules(pre):
    return [(pre + f, pre + f, "id", "outstation.rs define_class_zero_config: 'Include ... in Class 0 reads'") for f in _CZ]


def _feat_rules(pre):
    return [(pre + f, pre + f, "id", "outstation.rs define_outstation_features (bool -> Feature::Enabled/Disabled)") for f in _FEAT]


def _dl_rules(pre):
    return [(pre + f, pre + f, "id", "shared.rs decode_level: enum by variant name") for f, _ in _DL]


CFG_RULES = {
    "outstation": [
        ("outstation_address", "outstation_address", "address", "outstation.rs: 'Link-layer outstation address'; dnp3 link/mod.rs: special addresses may not be used"),
        ("master_address", "master_address", "address", "outstation.rs: 'Link-layer master address'"),
    ] + _eb_rules("event_buffer_config.") + [
        ("solicited_buffer_size", "solicited_buffer_size", "buf>=249", "outstation.rs: 'Must be at least 249 bytes'"),
        ("unsolicited_buffer_size", "unsolicited_buffer_size", "buf>=249", "outstation.rs: 'Must be at least 249 bytes'"),
        ("rx_buffer_size", "rx_buffer_size", "buf>=249", "outstation.rs: 'Must be at least 249 bytes'"),
    ] + _dl_rules("decode_level.") + [
        ("confirm_timeout", "confirm_timeout", "timeout", "outstation.rs: Milliseconds 'Confirmation timeout'; dnp3 app/timeout.rs: 1 ms ..= 1 h"),
        ("select_timeout", "select_timeout", "timeout", "outstation.rs: Milliseconds 'Select timeout'"),
    ] + _feat_rules("features.") + [
        ("max_unsolicited_retries", "max_unsolicited_retries", "some", "outstation.rs: 'Maximum number of unsolicited retries' (u32, default u32::MAX)"),
        ("unsolicited_retry_delay", "unsolicited_retry_delay", "ms", "outstation.rs: Milliseconds 'Delay to wait before retrying an unsolicited response'"),
        ("keep_alive_timeout", "keep_alive_timeout", "ms0none", "outstation.rs: 'A value of zero means no automatic keep-alive will be sent.'"),
        ("max_read_request_headers", "max_read_request_headers", "some", "outstation.rs: 'Maximum number of headers ...' (a minimum is enforced INSIDE the library, not by the conversion)"),
        ("max_controls_per_request", "max_controls_per_request", "some", "outstation.rs: 'Maximum number of controls in a single request.' (0 = no control accepted; None = unlimited natively)"),
    ] + _cz_rules("class_zero."),
    "eventbuffer": _eb_rules(""),
    "classzero": _cz_rules(""),
    "features": _feat_rules(""),
    "association": [
        ("response_timeout", "response_timeout", "timeout", "master/mod.rs: Milliseconds 'Timeout for receiving a response on this association'"),
    ] + [("%s.class%d" % (g, i), "%s.class%d" % (g, i), "id", "master/mod.rs: '%s'" % d)
         for g, d in (("disable_unsol_classes", "Classes to disable unsolicited responses at startup"),
                      ("enable_unsol_classes", "Classes to enable unsolicited responses at startup")) for i in (1, 2, 3)] + [
        ("startup_integrity_classes.class0", "startup_integrity_classes.class0", "id", "master/mod.rs: 'Startup integrity classes ...'"),
    ] + [("startup_integrity_classes.events.class%d" % i, "startup_integrity_classes.class%d" % i, "id",
          "master/mod.rs: 'Startup integrity classes ...'") for i in (1, 2, 3)] + [
        ("auto_time_sync", "auto_time_sync", "none-is-none", "master/mod.rs: auto_time_sync 'none' = 'Do not perform automatic time sync'"),
        ("auto_tasks_retry_strategy.min_delay", "auto_tasks_retry_strategy.min_delay", "ms", "shared.rs: Milliseconds 'Minimum delay between two retries'"),
        ("auto_tasks_retry_strategy.max_delay", "auto_tasks_retry_strategy.max_delay", "ms", "shared.rs: Milliseconds 'Maximum delay between two retries'"),
        ("keep_alive_timeout", "keep_alive_timeout", "s0none", "master/mod.rs: Seconds, 'A value of zero means no automatic keep-alive.'"),
        ("auto_integrity_scan_on_buffer_overflow", "auto_integrity_scan_on_buffer_overflow", "id", "master/mod.rs: bool"),
    ] + [("event_scan_on_events_available.class%d" % i, "event_scan_on_events_available.class%d" % i, "id",
          "master/mod.rs: 'Classes to automatically send reads when the IIN bit is asserted'") for i in (1, 2, 3)] + [
        ("max_queued_user_requests", "max_queued_user_requests", "id", "master/mod.rs: 'maximum number of user requests ... that will be queued'"),
    ],
    "channel": [
        ("master_address", "address", "address", "master/mod.rs: 'Local DNP3 data-link address'"),
    ] + _dl_rules("decode_level.") + [
        ("tx_buffer_size", "tx_buffer_size", "buf>=249", "master/mod.rs: 'Must be at least 249'"),
        ("rx_buffer_size", "rx_buffer_size", "buf>=2048", "master/mod.rs: 'Must be at least 2048'"),
    ],
    "retry": [
        ("min_delay", "min_delay", "ms", "shared.rs: Milliseconds 'Minimum delay between two retries'"),
        ("max_delay", "max_delay", "ms", "shared.rs: Milliseconds 'Maximum delay between two retries'"),
    ],
    "connect": [
        ("min_connect_delay", "min_connect_delay", "ms", "shared.rs: Milliseconds 'Minimum delay between two connection attempts ...'"),
        ("max_connect_delay", "max_connect_delay", "ms", "shared.rs: Milliseconds 'Maximum delay between two connection attempts'"),
        ("reconnect_delay", "reconnect_delay", "ms", "shared.rs: Milliseconds 'Delay before attempting a connection after a disconnect'"),
    ],
    "linkid": [
        ("max_tasks", "max_tasks", "clamp>=1", "UNDOCUMENTED: master/server.rs schema says only 'Set the maximum number of simultaneous tasks ...'"),
        ("timeout", "timeout", "timeout-saturating", "UNDOCUMENTED: master/server.rs schema says only 'Maximum time period to wait ...'"),
        ("decode_level", "decode_level", "id", "master/server.rs: phys decode level by variant name"),
    ],
    "fileread": [
        ("max_block_size", "max_block_size", "id", "file.rs: 'Maximum block size requested by the master ...'"),
        ("max_file_size", "max_file_size", "id", "file.rs: 'Maximum file size accepted by the master' (u32 -> usize)"),
    ],
    "dirread": [
        ("max_block_size", "max_block_size", "id", "file.rs"),
        ("max_file_size", "max_file_size", "id", "file.rs (u32 -> usize)"),
    ],
    "utc": [("value", "value", "valid-flag-48", "master/mod.rs utc_timestamp: 'value is only valid if is_valid is true', "
             "'Only the lower 48-bits are used in DNP3 timestamps'")],
    "serial": [
        ("baud_rate", "baud_rate", "id", "shared.rs serial_settings"), ("data_bits", "data_bits", "id", "shared.rs"),
        ("flow_control", "flow_control", "id", "shared.rs"), ("parity", "parity", "id", "shared.rs"),
        ("stop_bits", "stop_bits", "id", "shared.rs"),
    ],
    "udp": [
        ("local_endpoint", "local_endpoint", "sockaddr", "outstation.rs outstation_udp_config"),
        ("remote_endpoint", "remote_endpoint", "sockaddr", "outstation.rs outstation_udp_config"),
        ("socket_mode", "socket_mode", "id", "outstation.rs"), ("link_read_mode", "link_read_mode", "id", "outstation.rs"),
        ("retry_delay", "retry_delay", "timeout", "outstation.rs: Milliseconds retry delay; a dnp3::app::Timeout natively"),
    ],
}
CFG_UNDOCUMENTED = [(k, r[0], r[2]) for k, rs in sorted(CFG_RULES.items()) for r in rs if r[3].startswith("UNDOCUMENTED")]

# CFG_FIELDS[kind] = [(binding field, type)]: what the generator may put into each field
#   ("addr",) ("buf", min) ("timeout",) ("u16", typical) ("u32", typical) ("u64", typical) ("bool",)
#   ("enum", [variants]) ("sockaddr",)
_SOCK_OK = ["127.0.0.1:20000", "0.0.0.0:0", "255.255.255.255:65535", "[::1]:20000", "10.1.2.3:1"]
_SOCK_BAD = ["nonsense", "127.0.0.1", "127.0.0.1:65536", "256.0.0.1:1", "localhost:20000"]


def _dl_fields(pre):
    return [(pre + f, ("enum", vs)) for f, vs in _DL]


CFG_FIELDS = {
    "outstation": [("outstation_address", ("addr",)), ("master_address", ("addr",))]
                  + [("event_buffer_config." + f, ("u16", 20 + i)) for i, f in enumerate(_EB)]
                  + [("solicited_buffer_size", ("buf", 249)), ("unsolicited_buffer_size", ("buf", 249)), ("rx_buffer_size", ("buf", 249))]
                  + _dl_fields("decode_level.")
                  + [("confirm_timeout", ("timeout",)), ("select_timeout", ("timeout",))]
                  + [("features." + f, ("bool",)) for f in _FEAT]
                  + [("max_unsolicited_retries", ("u32", 3)), ("unsolicited_retry_delay", ("u64", 7000)),
                     ("keep_alive_timeout", ("u64", 30000)), ("max_read_request_headers", ("u16", 32)),
                     ("max_controls_per_request", ("u16", 10))]
                  + [("class_zero." + f, ("bool",)) for f in _CZ],
    "eventbuffer": [(f, ("u16", 20 + i)) for i, f in enumerate(_EB)],
    "classzero": [(f, ("bool",)) for f in _CZ],
    "features": [(f, ("bool",)) for f in _FEAT],
    "association": [("response_timeout", ("timeout",))]
                   + [("%s.class%d" % (g, i), ("bool",)) for g in ("disable_unsol_classes", "enable_unsol_classes") for i in (1, 2, 3)]
                   + [("startup_integrity_classes.class%d" % i, ("bool",)) for i in (0, 1, 2, 3)]
                   + [("auto_time_sync", ("enum", ["None", "Lan", "NonLan", "DirectWriteAbsTime"])),
                      ("auto_tasks_retry_strategy.min_delay", ("u64", 1500)), ("auto_tasks_retry_strategy.max_delay", ("u64", 20000)),
                      ("keep_alive_timeout", ("u64", 45)), ("auto_integrity_scan_on_buffer_overflow", ("bool",))]
                   + [("event_scan_on_events_available.class%d" % i, ("bool",)) for i in (1, 2, 3)]
                   + [("max_queued_user_requests", ("u16", 8))],
    "channel": [("address", ("addr",))] + _dl_fields("decode_level.") + [("tx_buffer_size", ("buf", 249)), ("rx_buffer_size", ("buf", 2048))],
    "retry": [("min_delay", ("u64", 250)), ("max_delay", ("u64", 30000))],
    "connect": [("min_connect_delay", ("u64", 500)), ("max_connect_delay", ("u64", 60000)), ("reconnect_delay", ("u64", 2500))],
    "linkid": [("max_tasks", ("u16", 4)), ("timeout", ("u64", 2500)), ("decode_level", ("enum", ["Nothing", "Length", "Data"]))],
    "fileread": [("max_block_size", ("u16", 512)), ("max_file_size", ("u32", 100000))],
    "dirread": [("max_block_size", ("u16", 256)), ("max_file_size", ("u32", 4096))],
    "utc": [("value", ("u64", 1234567890123)), ("is_valid", ("bool",))],
    "serial": [("baud_rate", ("u32", 19200)), ("data_bits", ("enum", ["Five", "Six", "Seven", "Eight"])),
               ("flow_control", ("enum", ["None", "Software", "Hardware"])), ("parity", ("enum", ["None", "Odd", "Even"])),
               ("stop_bits", ("enum", ["One", "Two"]))],
    "udp": [("local_endpoint", ("sockaddr",)), ("remote_endpoint", ("sockaddr",)), ("socket_mode", ("enum", ["OneToOne", "OneToMany"])),
            ("link_read_mode", ("enum", ["Stream", "Datagram"])), ("retry_delay", ("timeout",))],
}
# quick tier: (script, [(kind, valid sweeps, invalid probes)])
CFG_QUICK = [
    ("outstation", [("outstation", 6, 3)]),
    ("association", [("association", 6, 2)]),
    ("channel", [("channel", 5, 3), ("retry", 3, 0), ("connect", 3, 0), ("linkid", 3, 0)]),
    ("misc", [("fileread", 2, 0), ("dirread", 2, 0), ("utc", 2, 0), ("serial", 2, 0), ("udp", 3, 2),
              ("eventbuffer", 1, 0), ("classzero", 1, 0), ("features", 1, 0)]),
]


def cfg_pools(ty, rng):
    """-> (valid pool [min, min+1, typical, max, random], invalid values)"""
    t = ty[0]
    if t == "addr":
        return [0, 1, 1024, 0xFFEF, rng.below(0xFFF0)], [0xFFF0, 0xFFFC, 0xFFFF]
    if t == "buf":
        return [ty[1], ty[1] + 1, 4096, U16, rng.range(ty[1], U16)], [0, 1, ty[1] - 1]
    if t == "timeout":
        return [1, 2, 5000, HOUR_MS, rng.range(1, HOUR_MS)], [0, HOUR_MS + 1, U64]
    if t in ("u16", "u32", "u64"):
        top = {"u16": U16, "u32": U32, "u64": U64}[t]
        return [0, 1, ty[1], top, rng.below(top + 1) if rng.chance(1, 2) else rng.below(100000) % (top + 1)], []
    if t == "sockaddr":
        return list(_SOCK_OK), list(_SOCK_BAD)
    raise ValueError(t)


def cfg_expect(rule, raw, ffi):
    """image of the binding-side value `raw` (text, as printed by the harness) under `rule`:
    ("ok", native text) or ("err", ParamError variant)"""
    if rule in ("id", "ms", "some"):
        return ("ok", raw)
    if rule == "ms0none":
        return ("ok", "none" if int(raw) == 0 else raw)
    if rule == "s0none":
        return ("ok", "none" if int(raw) == 0 else str(int(raw) * 1000))
    if rule == "timeout":
        return ("ok", raw) if 1 <= int(raw) <= HOUR_MS else ("err", "InvalidTimeout")
    if rule == "timeout-saturating":
        return ("ok", str(min(max(int(raw), 1), HOUR_MS)))
    if rule == "clamp>=1":
        return ("ok", str(max(int(raw), 1)))
    if rule == "address":
        return ("ok", raw) if int(raw) < 0xFFF0 else ("err", "InvalidDnp3Address")
    if rule.startswith("buf>="):
        return ("ok", raw) if int(raw) >= int(rule[5:]) else ("err", "InvalidBufferSize")
    if rule == "none-is-none":
        return ("ok", "none" if raw == "None" else raw)
    if rule == "sockaddr":
        return ("ok", raw) if raw in _SOCK_OK else ("err", "InvalidSocketAddress")
    if rule == "valid-flag-48":
        return ("ok", str(int(raw) & ((1 << 48) - 1)) if ffi.get("is_valid") == "1" else "none")
    raise ValueError("rule %r" % rule)


def cfg_fields_of(line, skip):
    """`ffi cfg <kind> a=1 b=2` -> {a: 1, b: 2}"""
    return dict(t.split("=", 1) for t in line.split(" ")[skip:] if "=" in t)


def check_cfg(op_text, f, n):
    """oracle of one `cfg` operation -> [(clause, description)]"""
    toks = op_text.split()
    kind, sent = toks[1], dict(t.split("=", 1) for t in toks[2:])
    rules = CFG_RULES.get(kind)
    if rules is None:
        return [("harness|cfg-kind", "no rule table for configuration kind `%s`" % kind)]
    ffi, nat = cfg_fields_of(f, 3), cfg_fields_of(n, 3)
    for k, v in sent.items():
        if ffi.get(k) != v:
            return [("harness|cfg-echo", "`%s`: field %s was given as %s, the struct handed to the conversion holds %s" % (op_text[:120], k, v, ffi.get(k)))]
    ret = nat.pop("ret", None)
    want, errs = {}, {}
    for nf, bf, rule, _doc in rules:
        if bf not in ffi:
            return [("harness|cfg-fields", "binding-side line of `cfg %s` has no field %s" % (kind, bf))]
        r = cfg_expect(rule, ffi[bf], ffi)
        if r[0] == "err":
            errs.setdefault(r[1], []).append((bf, ffi[bf], rule))
        else:
            want[nf] = (r[1], bf, rule)
    given = " ".join("%s=%s" % kv for kv in sorted(sent.items())) or "(all fields at their base value)"
    if ret != "ok":
        if ret in errs:
            return []
        if errs:
            return [("cfg-error|%s|%s" % (kind, sorted(errs)[0]),
                     "cfg %s %s: rejected with %s, the invalid field(s) %s call for %s"
                     % (kind, given, ret, ", ".join("%s=%s" % (b, v) for e in sorted(errs) for b, v, _ in errs[e]), "/".join(sorted(errs))))]
        return [("cfg-rejected|%s|%s" % (kind, ret),
                 "cfg %s %s: every field is within its documented range, but the conversion failed with ParamError::%s" % (kind, given, ret))]
    if errs:
        e = sorted(errs)[0]
        b, v, rule = errs[e][0]
        return [("cfg-accepted|%s|%s" % (kind, b),
                 "cfg %s %s: binding field %s=%s is outside its documented range (rule %s) and must be refused with ParamError::%s; "
                 "the conversion accepted it (native %s=%s)" % (kind, given, b, v, rule, e, b, nat.get(b)))]
    if set(nat) != set(want):
        return [("harness|cfg-fields", "native-side line of `cfg %s` has fields %s, the rule table has %s"
                 % (kind, sorted(set(nat) - set(want)), sorted(set(want) - set(nat))))]
    out = []
    for nf, bf, rule, doc in rules:
        exp = want[nf][0]
        if nat[nf] != exp:
            other = [b for (x, b, r) in want.values() if x == nat[nf] and b != bf and exp != nat[nf]]
            out.append(("cfg-field|%s|%s" % (kind, nf),
                        "cfg %s: native field `%s` must be %s (its namesake binding field %s=%s read as `%s`: %s), the conversion produced %s%s; "
                        "whole input: %s" % (kind, nf, exp, bf, ffi[bf], rule, doc, nat[nf],
                                             " (the value of binding field %s)" % other[0] if len(other) == 1 else "", given)))
    return out[:3]


# ------------------------------------------------------------------------------------------------
# building and running the dnp3-ffi test binary (local equivalent of driver.build_harness /
# driver.run_impl_shards)

_ffi_bin = None


def build_ffi_harness():
    """`cargo rustc -p dnp3-ffi --lib --profile test -- --cfg dnp3_verif`: the guard cfg reaches the
    dnp3-ffi crate only, dnp3 is built as the production dependency it is"""
    global _ffi_bin
    if _ffi_bin:
        return _ffi_bin
    env = dict(os.environ, CARGO_NET_OFFLINE="true", CARGO_TARGET_DIR=TARGET_FFI,
               CARGO_PROFILE_DEV_DEBUG="0", CARGO_PROFILE_TEST_DEBUG="0")   # no debug info: a third of the disk use
    env.pop("RUSTFLAGS", None)
    with Lock("cargo_ffi"):
        p = subprocess.run(["cargo", "rustc", "-p", "dnp3-ffi", "--lib", "--profile", "test", "--offline",
                            "--message-format=json", "--", "--cfg", "dnp3_verif"],
                           cwd=REPO, env=env, stdout=subprocess.PIPE, stderr=subprocess.PIPE, text=True, timeout=3000)
        exe, msgs = None, []
        for line in p.stdout.splitlines():
            if not line.startswith("{"):
                continue
            try:
                j = json.loads(line)
            except ValueError:
                continue
            if j.get("reason") == "compiler-artifact" and j.get("executable") and j["target"]["name"] in ("dnp3_ffi", "dnp3-ffi"):
                exe = j["executable"]
            if j.get("reason") == "compiler-message" and j["message"].get("level") == "error":
                msgs.append(j["message"].get("rendered", ""))
        if p.returncode != 0 or not exe:
            raise BuildError("cargo build of the dnp3-ffi test binary (hook H4) failed:\n" + "\n".join(msgs)[-4000:] + p.stderr[-1500:])
        dst = os.path.join(CACHE, "bin", "dnp3-ffi-harness-%s" % hashlib.sha256(open(exe, "rb").read()).hexdigest()[:12])
        os.makedirs(os.path.dirname(dst), exist_ok=True)
        if not os.path.exists(dst):
            for old in os.listdir(os.path.dirname(dst)):      # keep one private copy only
                if old.startswith("dnp3-ffi-harness-"):
                    os.remove(os.path.join(os.path.dirname(dst), old))
            shutil.copy2(exe, dst)
        _ffi_bin = dst
        return dst


def run_ffi_shards(scripts, workdir, tag):
    exe = build_ffi_harness()
    os.makedirs(workdir, exist_ok=True)
    n = max(1, min(NPROC, (len(scripts) + 19) // 20))
    procs = []
    for i in range(n):
        part = scripts[i::n]
        sp = os.path.join(workdir, "%s.ffi.%d.in" % (tag, i))
        op = os.path.join(workdir, "%s.ffi.%d.out" % (tag, i))
        open(sp, "w").write("\n".join(part) + "\n")
        if os.path.exists(op):
            os.remove(op)
        env = dict(os.environ, VERIF_SCRIPTS=sp, VERIF_OUT=op, RUST_BACKTRACE="0")
        procs.append((subprocess.Popen([exe, "verif_harness_ffi::verif_ffi_run", "--exact", "--test-threads=1"],
                                       env=env, stdout=subprocess.PIPE, stderr=subprocess.STDOUT, text=True), op, sp))
    out = {}
    for p, op, sp in procs:
        try:
            so, _ = p.communicate(timeout=900)
        except subprocess.TimeoutExpired:
            p.kill()
            so = "timeout"
        if os.path.exists(op):
            out.update(parse_traces(open(op).read()))
        else:
            for sid in script_ids(open(sp).read()):
                out.setdefault(sid, ["harness-died " + so[-200:].replace("\n", " ")])
    return out


# ------------------------------------------------------------------------------------------------
# the generated tables as traces (engine `ffitable`)

def load_tables():
    if not os.path.exists(TABLES_JSON):
        return None
    return json.load(open(TABLES_JSON))


def q(s):
    return urllib.parse.quote(s, safe="") or "-"


def table_trace(tables, kind, name):
    """observation lines of one generated table, everything the rules need"""
    if tables is None:
        return ["missing-tables"]
    if kind == "enum":
        t = next((t for t in tables["enum_tables"] if t["name"] == name), None)
        if t is None:
            return ["no-such-table"]
        L = ["where %s:%d %s %s" % (t["file"], t["line"], q(t["src_enum"]), q(t["dst_enum"])),
             "wild %d" % (1 if t["wild"] else 0),
             "src " + " ".join(t["src"]), "dst " + " ".join(t["dst"])]
        L += ["arm %s %s" % (a[0], a[1]) for a in t["arms"]]
        L += ["pinned %s %s" % (p[0], p[1]) for p in t["pinned"]]
        L += ["deviation %s" % d[1] for d in tables["known_enum_deviations"] if d[0] == name]
        return L
    if kind == "config":
        t = next((t for t in tables.get("config_tables", []) if t["name"] == name), None)
        if t is None:
            return ["no-such-table"]
        texts = dict(t["texts"])
        L = ["where %s:%d" % (t["file"], t["line"]), "vocabulary " + " ".join(tables["wrapper_vocabulary"])]
        L += ["row %s %s %s %s" % (r[0], q(r[1]), q(r[2]), q(texts.get(r[0], ""))) for r in t["rows"]]
        L += ["alias %s %s" % (a[0], a[1]) for a in t["aliases"]]
        L += ["pin %s %s" % (p[0], q(p[1])) for p in t["pinned"]]
        return L
    t = next((t for t in tables["struct_tables"] if t["name"] == name), None)
    if t is None:
        return ["no-such-table"]
    L = ["where %s:%d %s" % (t["file"], t["line"], q(t["target"]))]
    for r in t["fields"]:
        L.append("field %s %s %s" % (r["field"], q(r["const"] or ""), " ".join(".".join(c) for c in r["chains"])))
    L += ["alias %s %s" % (a[0], a[1]) for a in t["aliases"]]
    L += ["const %s %s" % (c[0], q(c[1])) for c in t["consts"]]
    L += ["deviation %s" % d[1] for d in tables["known_field_deviations"] if d[0] == name]
    return L


def check_enum_trace(lines):
    """the rules of coq/Ffi/FfiModel.v (arm_ok, arms_wellformed, total_ok, wildcard_ok, pins_ok),
    re-implemented on the trace; returns [(clause, key, text)]"""
    where = lines[0].split(" ", 2)[1] if lines and lines[0].startswith("where ") else "?"
    get = lambda k: [[x for x in l.split(" ")[1:] if x] for l in lines if l == k or l.startswith(k + " ")]
    wild = get("wild") == [["1"]]
    src = (get("src") or [[]])[0]
    dst = (get("dst") or [[]])[0]
    arms = [tuple(a) for a in get("arm")]
    pinned = dict(tuple(p) for p in get("pinned"))
    devs = {d[0] for d in get("deviation")}
    out = []
    srcs = [a[0] for a in arms]
    for s, d in arms:
        if s in dst:
            if d != s:
                kind = "known-deviation" if s in devs else "namesake"
                out.append((kind, s, "%s: source variant `%s` has a namesake in the target enum but is mapped to `%s`" % (where, s, d)))
        elif pinned.get(s) != d:
            out.append(("fallback", s, "%s: source `%s` has no namesake in the target enum and is mapped to `%s`, pinned target is %s"
                        % (where, s, d, pinned.get(s, "missing in ffi_fallbacks.json"))))
        if s != "_" and s not in src:
            out.append(("wellformed", s, "%s: arm for `%s` which is not a variant of the source enum" % (where, s)))
        if d not in DELEG and d not in dst:
            out.append(("wellformed", s, "%s: arm `%s` yields `%s` which is not a variant of the target enum" % (where, s, d)))
        if srcs.count(s) > 1:
            out.append(("wellformed", s, "%s: source variant `%s` matched twice" % (where, s)))
    wt = dict(arms).get("_")
    for v in src:
        if v not in srcs and not (wild and wt is not None and pinned.get(v) == wt):
            out.append(("total", v, "%s: source variant `%s` has no arm of its own and is not pinned to the catch-all" % (where, v)))
    if wild != ("_" in srcs):
        out.append(("wildcard", "_", "%s: catch-all flag and arms disagree" % where))
    for s, d in pinned.items():
        ok = wild if s == "_" else (s in src and s not in dst and (s in srcs or wild))
        if not ok:
            out.append(("stale-pin", s, "%s: pinned fallback `%s -> %s` is not needed by this table" % (where, s, d)))
    for s in devs:
        if not any(c[0] == "known-deviation" and c[1] == s for c in out):
            out.append(("stale-deviation", s, "%s: known deviation `%s` no longer deviates" % (where, s)))
    return out


def check_struct_trace(lines):
    where = lines[0].split(" ", 2)[1] if lines and lines[0].startswith("where ") else "?"
    aliases = {tuple(l.split(" ")[1:3]) for l in lines if l.startswith("alias ")}
    consts = {tuple(l.split(" ")[1:3]) for l in lines if l.startswith("const ")}
    devs = {l.split(" ")[1] for l in lines if l.startswith("deviation ")}
    out = []
    seen = []
    used_alias, used_const = set(), set()
    for l in lines:
        if not l.startswith("field "):
            continue
        t = l.split(" ")
        f, const, chains = t[1], t[2], [c.split(".") for c in t[3:] if c]
        if f in seen:
            out.append(("wellformed", f, "%s: field `%s` assigned twice" % (where, f)))
        seen.append(f)
        if not chains:
            if (f, const) not in consts:
                out.append(("known-deviation" if f in devs else "field-constant", f,
                            "%s: field `%s` is assigned the constant `%s` instead of its namesake" % (where, f, urllib.parse.unquote(const))))
            used_const.add((f, const))
            continue
        for ch in chains:
            hit = [s for s in ch if s == f or (f, s) in aliases]
            used_alias |= {(f, s) for s in ch if (f, s) in aliases}
            if not hit:
                out.append(("known-deviation" if f in devs else "field-namesake", f,
                            "%s: field `%s` is computed from `%s`, not from its namesake" % (where, f, ".".join(ch))))
    for a in aliases - used_alias:
        out.append(("stale-pin", a[0], "%s: alias %s <- %s is not used" % (where, a[0], a[1])))
    for c in consts - used_const:
        out.append(("stale-pin", c[0], "%s: constant pin for `%s` is not used" % (where, c[0])))
    for f in devs:
        if not any(c[0] == "known-deviation" and c[1] == f for c in out):
            out.append(("stale-deviation", f, "%s: known deviation `%s` no longer deviates" % (where, f)))
    return out


# configuration table (generated) -> kind of the `cfg` operation whose rule table (CFG_RULES) reads the same fields
CONFIG_TABLE_KIND = {
    "outstation/mod.rs::fn convert_outstation_config": "outstation",
    "outstation/mod.rs::fn convert_udp_config": "udp",
    "outstation/mod.rs::From<ffi::EventBufferConfig> for EventBufferConfig": "eventbuffer",
    "outstation/mod.rs::From<ffi::ClassZeroConfig> for ClassZeroConfig": "classzero",
    "outstation/mod.rs::From<ffi::OutstationFeatures> for Features": "features",
    "master/functions.rs::TryFrom<ffi::AssociationConfig> for AssociationConfig": "association",
    "master/functions.rs::TryFrom<ffi::MasterChannelConfig> for MasterChannelConfig": "channel",
    "master/functions.rs::From<ffi::RetryStrategy> for RetryStrategy": "retry",
    "master/functions.rs::From<ffi::ConnectStrategy> for ConnectStrategy": "connect",
    "master/functions.rs::From<ffi::FileReadConfig> for FileReadConfig": "fileread",
    "master/functions.rs::From<ffi::DirReadConfig> for DirReadConfig": "dirread",
    "master/functions.rs::From<ffi::SerialSettings> for SerialSettings": "serial",
}
# wrapper (what the source does to the accessor) -> the documented readings (CFG_RULES) it implements
WRAP_RULES = {
    "id": {"id", "ms"}, "usize": {"id"}, "some": {"some"}, "some-usize": {"some"}, "into": {"id"}, "match": {"id"},
    "endpoint-address": {"address"}, "buffer-size": {"buf>=249", "buf>=2048"}, "timeout": {"timeout"},
    "zero-none": {"ms0none", "s0none"}, "fn:convert_event_classes": {"id"}, "fn:convert_classes": {"id"},
    "fn:convert_auto_time_sync": {"none-is-none"}, "fn:to_feature": {"id"}, "ctor:RetryStrategy": {"ms"},
    "parse-str": {"sockaddr"},
}


def _nrm(s):
    return s.replace("_", "").lower()


def check_config_trace(lines, name):
    """config_row_ok / config_table_ok of coq/Ffi/FfiModel.v re-implemented on the trace, plus: the
    wrapper of a field implements the documented reading the `cfg` oracle uses for that field"""
    where = lines[0].split(" ")[1] if lines and lines[0].startswith("where ") else "?"
    vocab = next((l.split(" ")[1:] for l in lines if l.startswith("vocabulary ")), [])
    aliases = {tuple(l.split(" ")[1:3]) for l in lines if l.startswith("alias ")}
    pins = {l.split(" ")[1]: urllib.parse.unquote(l.split(" ")[2]) for l in lines if l.startswith("pin ")}
    kind = CONFIG_TABLE_KIND.get(name)
    out, seen = [], []
    if kind is None:
        out.append(("config-kind", "-", "%s: configuration table without a `cfg` kind in CONFIG_TABLE_KIND: its fields are not exercised" % where))
    for l in lines:
        if not l.startswith("row "):
            continue
        f, acc, w, text = [urllib.parse.unquote(x) if x != "-" else "" for x in l.split(" ")[1:5]]
        if f in seen:
            out.append(("wellformed", f, "%s: configuration field `%s` assigned twice" % (where, f)))
        seen.append(f)
        if acc != f and (f, acc) not in aliases:
            out.append(("config-namesake", f, "%s: configuration field `%s` is fed by the accessor `%s`, not by its namesake" % (where, f, acc)))
        if w not in vocab:
            out.append(("config-wrapper", f, "%s: configuration field `%s` is computed as `%s`, which is not in the wrapper vocabulary "
                        "(reviewed wrapper of this field: %s)" % (where, f, text, pins.get(f, "none"))))
        elif pins.get(f) != w:
            out.append(("config-wrapper", f, "%s: configuration field `%s` is computed as `%s` (wrapper %s), the reviewed wrapper is %s"
                        % (where, f, text, w, pins.get(f, "missing in ffi_fallbacks.json config_wrappers"))))
        if kind and w in WRAP_RULES:
            rules = {r[2] for r in CFG_RULES[kind] if _nrm(r[0]) == f or _nrm(r[0]).startswith(f + ".")}
            if not rules:
                out.append(("config-untested", f, "%s: configuration field `%s` has no rule in CFG_RULES[%s]: not exercised" % (where, f, kind)))
            elif not rules <= WRAP_RULES[w]:
                out.append(("config-rule", f, "%s: configuration field `%s` has the wrapper %s, the documented reading used by the cfg oracle is %s"
                            % (where, f, w, "/".join(sorted(rules)))))
    for f in pins:
        if f not in seen:
            out.append(("stale-pin", f, "%s: reviewed wrapper for `%s`, which is not a field of this conversion" % (where, f)))
    return out


# ------------------------------------------------------------------------------------------------

def c20_run_cases(prop, cases, tag):
    work = os.path.join(WORK, prop.id)
    os.makedirs(work, exist_ok=True)
    impl = {}
    tables = load_tables() if not prop.translator_failed() else None
    ffi_scripts = []
    for c in cases:
        head = c.script.split("\n", 1)[0].split()
        if head[2] == "ffitable":
            kind = [t.split("=", 1)[1] for t in head[3:] if t.startswith("kind=")][0]
            name = urllib.parse.unquote(c.script.split("\n")[1].split(" ", 1)[1])
            impl[c.sid] = table_trace(tables, kind, name)
        else:
            ffi_scripts.append(c.script)
    if ffi_scripts:
        impl.update(run_ffi_shards(ffi_scripts, work, tag))
    model = {c.sid: ["n/a (impl_only: the oracle compares the ffi and native lines pairwise)"] for c in cases}
    return impl, model


_orig_run_cases = propcheck.run_cases


def _dispatch_run_cases(prop, cases, tag):
    if getattr(prop, "id", None) == "C20":
        return c20_run_cases(prop, cases, tag)
    return _orig_run_cases(prop, cases, tag)


propcheck.run_cases = _dispatch_run_cases


class C20(Prop):
    id = "C20"
    translators = ["gen_ffi"]
    proof_targets = ["Ffi/FfiProofs.vo"]
    property_file = "Properties/C20.v"
    theorems = []  # filled from Properties/C20.v by check
    modelled = ("regenerated from source on every run: every enum / struct conversion of ffi/dnp3-ffi/src, and for the "
                "configuration conversions the (native field, accessor, wrapper) rows with their reviewed wrappers "
                "(tools/gen/gen_ffi.py, pins in ffi_fallbacks.json, hash-pinned skip list ffi_skipped.json); "
                "database operations through the binding are NOT modelled in Coq: decided by correspondence of "
                "dnp3_database_* (C ABI) against the native Database API in /verif/harness_ffi (hook H4); "
                "static/event variations of a point configuration are not observable through Database::get "
                "(covered by the tables only); configuration conversions (OutstationConfig, AssociationConfig, "
                "MasterChannelConfig, retry/connect strategies, event buffer / class zero / features, link id, file and "
                "directory read, UTC time stamp, serial settings, UDP outstation) are executed on boundary values and "
                "compared field by field with the documented reading of each field (CFG_RULES in tools/props/c20.py, "
                "written from the doc strings of ffi/dnp3-schema/src by hand: trusted); TLS configurations need "
                "certificate files and are not exercised; link_id_config's clamp of max_tasks to >= 1 and saturation of "
                "timeout into 1 ms..1 h are accepted although the schema does not document them")
    rule = ("(a) one case per generated conversion table, its rules re-evaluated in Python; (b) random lists of "
            "add/update/update2/update_flags/get/remove over the eight point types with flags, time stamps of the "
            "three qualities, update options, event classes, variations and dead bands, small event buffers so "
            "that Overflow occurs; each op executed through the C functions and natively on twin databases; a "
            "script is non-trivial when an operation created an event or added a point; distinct = distinct trace; "
            "(c) `cfg` operations: the binding's raw configuration structs filled with every numeric field at its "
            "minimum, minimum+1, a typical value, its maximum and a random value (Latin square over the fields), boolean "
            "masks binary-coded by field position, one field at a time outside its documented range; each native "
            "field must equal its namesake binding field under the rule table, an out-of-range field must be refused "
            "with the ParamError of its rule")
    extra_assumptions = ["trusted for the database part: /verif/harness_ffi (by-name pairing of binding and native "
                         "enum values in the harness), oo-bindgen's generated C shims, tokio runtime that is never driven"]

    def translator_failed(self):
        return not os.path.exists(TABLES_JSON)

    # ---- case generation -------------------------------------------------------------------

    def gen_update_args(self, rng, ty):
        if ty in ("bi", "bos"):
            v = str(rng.below(2))
        elif ty == "dbbi":
            v = rng.choice(DB_VALUES)
        elif ty in ("ctr", "fctr"):
            v = str(rng.choice([0, 1, 2, 5, 6, 1000, 4294967295, rng.below(1 << 32)]))
        else:
            v = rng.choice(F64_POOL) if rng.chance(3, 4) else "%016x" % rng.below(1 << 64)
        return v

    def gen_opts(self, rng):
        return [str(rng.choice([1, 1, 1, 0])), rng.choice(["detect", "detect", "force", "suppress"])]

    def gen_time(self, rng):
        return [rng.choice(["inv", "sync", "unsync"]), str(rng.choice(TIME_POOL) if rng.chance(1, 2) else rng.below(1 << 48))]

    def gen_script(self, rng, sid):
        types = []
        for _ in range(rng.range(1, 3)):
            types.append(rng.choice(list(TYPES)))
        idxs = [0, 1, 2, 7, 65535]
        ops = []
        live = []
        last = {}     # (type, index) -> (last numeric value written, its flags)

        def add(ty, idx):
            sv, ev, has_db = TYPES[ty]
            cls = rng.choice(["none", "c1", "c2", "c3", "c1", "c2"])
            if ty == "os":
                ops.append(["add", ty, idx, cls])
            else:
                ops.append(["add", ty, idx, cls, rng.choice(sv), rng.choice(ev), rng.choice(DEADBANDS) if has_db else DEADBANDS[0]])
            if (ty, idx) not in live:
                live.append((ty, idx))

        for ty in sorted(set(types)):
            add(ty, rng.choice(idxs[:2]))
        nops = rng.range(8, 28)
        for k in range(nops):
            if live and rng.chance(5, 6):
                ty, idx = rng.choice(live)      # mostly operate on points that exist
            else:
                ty, idx = rng.choice(types), rng.choice(idxs)
            r = rng.below(100)
            if r < 10:
                add(ty, idx)
            elif r < 66:
                name = "upd2" if rng.chance(2, 3) else "upd"
                if ty == "os":
                    n = rng.choice([0, 1, 2, 3, 255, 256]) if rng.chance(1, 4) else rng.range(1, 12)
                    ops.append([name, ty, idx, hexs(rng.bytes(n))] + self.gen_opts(rng))
                elif ty in ("ai", "aos", "ctr", "fctr") and (ty, idx) in last and rng.chance(1, 2):
                    # stay close to the previous value with unchanged flags: only the dead band of the
                    # point configuration decides whether an event is produced
                    v0, f0 = last[(ty, idx)]
                    delta = rng.choice([0, 1, 4, 5, 6, 999, 1000, 1001]) * rng.choice([1, -1])
                    if ty in ("ai", "aos"):
                        v1 = v0 + delta + rng.choice([0.0, 0.5])
                        tok = "%016x" % struct.unpack("<Q", struct.pack("<d", v1))[0]
                    else:
                        v1 = min(max(v0 + delta, 0), 4294967295)
                        tok = str(v1)
                    last[(ty, idx)] = (v1, f0)
                    ops.append([name, ty, idx, tok, f0] + self.gen_time(rng) + ["1", "detect"])
                else:
                    tok = self.gen_update_args(rng, ty)
                    fl = rng.choice(FLAGS_POOL) if rng.chance(3, 4) else rng.below(256)
                    if ty in ("ai", "aos"):
                        fv = struct.unpack("<d", struct.pack("<Q", int(tok, 16)))[0]
                        if fv == fv and abs(fv) < 1e12:
                            last[(ty, idx)] = (fv, fl)
                        else:
                            last.pop((ty, idx), None)
                    elif ty in ("ctr", "fctr"):
                        last[(ty, idx)] = (int(tok), fl)
                    ops.append([name, ty, idx, tok, fl] + self.gen_time(rng) + self.gen_opts(rng))
            elif r < 78 and ty != "os":
                ops.append(["flg", ty, idx, rng.choice(FLAGS_POOL)] + self.gen_time(rng) + self.gen_opts(rng))
            elif r < 94:
                ops.append(["get", ty, idx])
            else:
                ops.append(["rem", ty, idx])
                if (ty, idx) in live:
                    live.remove((ty, idx))
        cfg = {"evbuf": rng.choice([1, 2, 3, 10])}
        return Case(sid, script_text(sid, "ffi", cfg, ops),
                    {"impl_only": True, "kind": "db-" + "+".join(sorted(set(types))), "nops": len(ops)})

    # ---- configuration conversions (operation `cfg`) -------------------------------------------

    def gen_cfg_value(self, rng, ty, i, k, nsweep, bool_ix, nbits):
        """value of field number i (type ty) in valid sweep number k: a Latin square over the pool
        [min, min+1, typical, max, random] so that nsweep >= 5 operations put every field at every
        boundary; sweep 5 gives every field its own typical value (crossed fields show)"""
        t = ty[0]
        if t == "bool":
            return str((bool_ix >> k) & 1) if k < nbits else str(rng.below(2))
        if t == "enum":
            return ty[1][(i + k) % len(ty[1])]
        pool, _ = cfg_pools(ty, rng)
        if t == "sockaddr":
            return pool[(i + k) % len(pool)]
        if k == 5:
            return str(pool[2] + i)
        if k > 5:
            return str(rng.choice(pool))
        order = [0, 3, 2, 1, 4]
        return str(pool[order[(i + k) % min(nsweep, 5)]])

    def gen_cfg_ops(self, rng, kind, nsweep, ninvalid, nrandom=0):
        fields = CFG_FIELDS[kind]
        bools = [f for f, ty in fields if ty[0] == "bool"]
        nbits = max(1, (len(bools) - 1).bit_length())
        ops = []
        for k in range(nsweep):
            ops.append(["cfg", kind] + ["%s=%s" % (f, self.gen_cfg_value(rng, ty, i, k, nsweep, bools.index(f) if f in bools else 0, nbits))
                                        for i, (f, ty) in enumerate(fields)])
        probes = [(f, v) for f, ty in fields if ty[0] not in ("bool", "enum") for v in cfg_pools(ty, rng)[1]]
        if ninvalid is not None:
            rng.shuffle(probes)
            probes = probes[:ninvalid]
        # one field outside its documented range, every other field at the harness's (valid) base value
        ops += [["cfg", kind, "%s=%s" % (f, v)] for f, v in probes]
        for _ in range(nrandom):
            op = ["cfg", kind]
            bad = rng.below(3) if rng.chance(1, 5) else 0
            for f, ty in fields:
                if ty[0] == "bool":
                    v = rng.below(2)
                elif ty[0] == "enum":
                    v = rng.choice(ty[1])
                else:
                    pool, inv = cfg_pools(ty, rng)
                    v = rng.choice(inv) if bad and inv and rng.chance(1, 4) else rng.choice(pool)
                op.append("%s=%s" % (f, v))
            ops.append(op)
        return ops

    def cfg_cases(self, rng, tier):
        out = []
        if tier == "quick":
            plan = [(name, [(k, a, b, 0) for k, a, b in parts]) for name, parts in CFG_QUICK]
        else:
            plan = [("%s_%d" % (kind, j), [(kind, 8 if j == 0 else 0, None if j == 0 else 0, 50)])
                    for kind in sorted(CFG_FIELDS) for j in range(4)]
        for name, parts in plan:
            ops = []
            for kind, nsweep, ninvalid, nrandom in parts:
                ops += self.gen_cfg_ops(rng, kind, nsweep, ninvalid, nrandom)
            sid = "c20_cfg_%s" % name
            out.append(Case(sid, script_text(sid, "ffi", {}, ops),
                            {"impl_only": True, "kind": "cfg-" + "+".join(sorted({o[1] for o in ops})), "nops": len(ops)}))
        return out

    def table_cases(self):
        tables = load_tables()
        if tables is None or self.translator_failed():
            return []
        out = []
        for i, t in enumerate(tables["enum_tables"]):
            sid = "c20_enum_%d" % i
            out.append(Case(sid, "S %s ffitable kind=enum\ntable %s\nE" % (sid, q(t["name"])),
                            {"impl_only": True, "kind": "table-enum", "table": t["name"], "file": t["file"], "line": t["line"]}))
        for i, t in enumerate(tables["struct_tables"]):
            sid = "c20_struct_%d" % i
            out.append(Case(sid, "S %s ffitable kind=struct\ntable %s\nE" % (sid, q(t["name"])),
                            {"impl_only": True, "kind": "table-struct", "table": t["name"], "file": t["file"], "line": t["line"]}))
        for i, t in enumerate(tables.get("config_tables", [])):
            sid = "c20_config_%d" % i
            out.append(Case(sid, "S %s ffitable kind=config\ntable %s\nE" % (sid, q(t["name"])),
                            {"impl_only": True, "kind": "table-config", "table": t["name"], "file": t["file"], "line": t["line"]}))
        return out

    def cases(self, rng, tier):
        # replays of an earlier run would otherwise be mistaken for results of this one
        d = os.path.join(VERIF, "replays", self.id)
        if os.path.isdir(d):
            for f in os.listdir(d):
                if f.startswith("violation_") or f == "unexplained.json":
                    os.remove(os.path.join(d, f))
        n = 240 if tier == "quick" else 4000
        db = [self.gen_script(rng, "c20_db_%d" % i) for i in range(n)]
        return db[:2] + self.cfg_cases(rng, tier) + self.table_cases() + db[2:]

    # ---- oracle ----------------------------------------------------------------------------

    def oracle(self, case, impl):
        head = case.script.split("\n", 1)[0].split()
        fails = []
        if head[2] == "ffitable":
            if impl and impl[0] in ("missing-tables", "no-such-table", "missing"):
                return [("table-missing", "table %s is not among the generated tables (%s)" % (case.meta.get("table"), impl[0]))]
            kind = [t.split("=", 1)[1] for t in head[3:] if t.startswith("kind=")][0]
            name = urllib.parse.unquote(case.script.split("\n")[1].split(" ", 1)[1])
            res = check_enum_trace(impl) if kind == "enum" else check_config_trace(impl, name) if kind == "config" else check_struct_trace(impl)
            for clause, key, text in res:
                fails.append(("%s|%s|%s" % (clause, name, key), "%s [%s]" % (text, name)))
            return fails
        nops = len([l for l in case.script.split("\n")[1:-1] if l.strip()])
        for l in impl:
            if l.startswith("panic") or l.startswith("harness-died") or l == "missing" or l.startswith("unknown-engine"):
                fails.append(("harness|%s" % l.split(" ")[0], "ffi harness: " + l[:300]))
        if fails:
            return fails
        if len(impl) != 2 * nops:
            return [("harness|linecount", "%d observation lines for %d operations" % (len(impl), nops))]
        for i in range(0, len(impl), 2):
            f, n = impl[i], impl[i + 1]
            if not f.startswith("ffi ") or not n.startswith("native "):
                fails.append(("harness|format", "lines out of order: %s / %s" % (f[:80], n[:80])))
                break
            if f.startswith("ffi cfg "):
                # configuration conversion: native fields against their namesake binding fields (CFG_RULES)
                res = check_cfg(case.script.split("\n")[1 + i // 2], f, n) if n.startswith("native cfg ") else \
                    [("harness|format", "lines out of order: %s / %s" % (f[:80], n[:80]))]
                if res:
                    fails += res
                    break
                continue
            if f[4:] != n[7:]:
                t = f.split(" ")
                fails.append(("ffi-native-differ|%s" % t[1],
                              "operation #%d `%s`: through the binding `%s`, natively `%s`"
                              % (i // 2, case.script.split("\n")[1 + i // 2], f[4:], n[7:])))
                break
        return fails

    def nontrivial(self, case, impl):
        if case.meta.get("kind", "").startswith("table"):
            return any(l.startswith("arm ") or l.startswith("field ") or l.startswith("row ") for l in impl)
        if case.meta.get("kind", "").startswith("cfg"):
            return any(l.startswith("native cfg ") and " ret=ok " in l for l in impl)
        return any(("ret=created" in l or "ret=overflow" in l or (l.startswith("native add") and "ret=true" in l)) for l in impl)

    def finding_signature(self, case, clause, desc):
        return clause


PROP = C20()
