"""C20 — The C/.NET/Java binding layer maps every value to its namesake, losslessly.

Two parts:
  * tables (proof): tools/gen/gen_ffi.py turns every conversion of ffi/dnp3-ffi/src into a Coq
    table; coq/Ffi/FfiProofs.v proves the namesake discipline over ALL of them.  The same tables
    are re-checked here in Python (engine `ffitable`, one case per table) so that a broken rule
    comes with a located failing input (file:line, arm / field) instead of only a failed proof.
  * database operations (correspondence, engine `ffi`): random operation lists are executed by
    /verif/harness_ffi (compiled into dnp3-ffi's test build through hook H4) once through the
    exported C functions `dnp3_database_*` and once through dnp3's native `Database` API on an
    identical second database; the oracle compares the `ffi` and `native` lines pairwise.
    There is no Coq model run for this engine (meta impl_only).

The ffi engine lives in another test binary than the other engines, so this module carries its own
build-and-run code and installs it in place of propcheck.run_cases for this property only."""
import hashlib, json, os, shutil, struct, subprocess, urllib.parse
import propcheck
from propcheck import *

TARGET_FFI = os.path.join(CACHE, "target_ffi")
TABLES_JSON = os.path.join(CACHE, "gen", "FfiTables.json")
DELEG = ["@into", "@match", "@dispatch"]

# per point type: (static variations, event variations, has deadband)
TYPES = {
    "bi": (["Group1Var1", "Group1Var2"], ["Group2Var1", "Group2Var2", "Group2Var3"], False),
    "dbbi": (["Group3Var1", "Group3Var2"], ["Group4Var1", "Group4Var2", "Group4Var3"], False),
    "bos": (["Group10Var1", "Group10Var2"], ["Group11Var1", "Group11Var2"], False),
    "ctr": (["Group20Var1", "Group20Var2", "Group20Var5", "Group20Var6"],
            ["Group22Var1", "Group22Var2", "Group22Var5", "Group22Var6"], True),
    "fctr": (["Group21Var1", "Group21Var2", "Group21Var5", "Group21Var6", "Group21Var9", "Group21Var10"],
             ["Group23Var1", "Group23Var2", "Group23Var5", "Group23Var6"], True),
    "ai": (["Group30Var%d" % i for i in range(1, 7)], ["Group32Var%d" % i for i in range(1, 9)], True),
    "aos": (["Group40Var%d" % i for i in range(1, 5)], ["Group42Var%d" % i for i in range(1, 9)], True),
    "os": ([], [], False),
}
F64_POOL = ["0000000000000000", "8000000000000000", "3ff8000000000000", "4059000000000000", "c2225c17d0400000",
            "7ff8000000000000", "7ff0000000000000", "fff0000000000000", "0000000000000001", "40c3880000000000",
            "7fefffffffffffff", "4024000000000000", "4024000000000001"]
DEADBANDS = ["0000000000000000", "3ff0000000000000", "4014000000000000", "408f400000000000"]   # 0, 1, 5, 1000
FLAGS_POOL = [0, 1, 2, 0x41, 0x81, 0xff, 0x20, 0x10]
TIME_POOL = [0, 1, 1234567890123, (1 << 48) - 1, 1 << 48, (1 << 64) - 1]
DB_VALUES = ["Intermediate", "DeterminedOff", "DeterminedOn", "Indeterminate"]


# ------------------------------------------------------------------------------------------------
# building and running the dnp3-ffi test binary (local equivalent of driver.build_harness /
# driver.run_impl_shards)

_ffi_bin = None


def build_ffi_harness():
    """`cargo rustc -p dnp3-ffi --lib --profile test -- --cfg dnp3_verif`: the guard cfg reaches the
    dnp3-ffi crate only, dnp3 is built as the production dependency it is"""
    global _ffi_bin
    if _ffi_bin:
        return _ffi_bin
    env = dict(os.environ, CARGO_NET_OFFLINE="true", CARGO_TARGET_DIR=TARGET_FFI,
               CARGO_PROFILE_DEV_DEBUG="0", CARGO_PROFILE_TEST_DEBUG="0")   # no debug info: a third of the disk use
    env.pop("RUSTFLAGS", None)
    with Lock("cargo_ffi"):
        p = subprocess.run(["cargo", "rustc", "-p", "dnp3-ffi", "--lib", "--profile", "test", "--offline",
                            "--message-format=json", "--", "--cfg", "dnp3_verif"],
                           cwd=REPO, env=env, stdout=subprocess.PIPE, stderr=subprocess.PIPE, text=True, timeout=3000)
        exe, msgs = None, []
        for line in p.stdout.splitlines():
            if not line.startswith("{"):
                continue
            try:
                j = json.loads(line)
            except ValueError:
                continue
            if j.get("reason") == "compiler-artifact" and j.get("executable") and j["target"]["name"] in ("dnp3_ffi", "dnp3-ffi"):
                exe = j["executable"]
            if j.get("reason") == "compiler-message" and j["message"].get("level") == "error":
                msgs.append(j["message"].get("rendered", ""))
        if p.returncode != 0 or not exe:
            raise BuildError("cargo build of the dnp3-ffi test binary (hook H4) failed:\n" + "\n".join(msgs)[-4000:] + p.stderr[-1500:])
        dst = os.path.join(CACHE, "bin", "dnp3-ffi-harness-%s" % hashlib.sha256(open(exe, "rb").read()).hexdigest()[:12])
        os.makedirs(os.path.dirname(dst), exist_ok=True)
        if not os.path.exists(dst):
            for old in os.listdir(os.path.dirname(dst)):      # keep one private copy only
                if old.startswith("dnp3-ffi-harness-"):
                    os.remove(os.path.join(os.path.dirname(dst), old))
            shutil.copy2(exe, dst)
        _ffi_bin = dst
        return dst


def run_ffi_shards(scripts, workdir, tag):
    exe = build_ffi_harness()
    os.makedirs(workdir, exist_ok=True)
    n = max(1, min(NPROC, (len(scripts) + 19) // 20))
    procs = []
    for i in range(n):
        part = scripts[i::n]
        sp = os.path.join(workdir, "%s.ffi.%d.in" % (tag, i))
        op = os.path.join(workdir, "%s.ffi.%d.out" % (tag, i))
        open(sp, "w").write("\n".join(part) + "\n")
        if os.path.exists(op):
            os.remove(op)
        env = dict(os.environ, VERIF_SCRIPTS=sp, VERIF_OUT=op, RUST_BACKTRACE="0")
        procs.append((subprocess.Popen([exe, "verif_harness_ffi::verif_ffi_run", "--exact", "--test-threads=1"],
                                       env=env, stdout=subprocess.PIPE, stderr=subprocess.STDOUT, text=True), op, sp))
    out = {}
    for p, op, sp in procs:
        try:
            so, _ = p.communicate(timeout=900)
        except subprocess.TimeoutExpired:
            p.kill()
            so = "timeout"
        if os.path.exists(op):
            out.update(parse_traces(open(op).read()))
        else:
            for sid in script_ids(open(sp).read()):
                out.setdefault(sid, ["harness-died " + so[-200:].replace("\n", " ")])
    return out


# ------------------------------------------------------------------------------------------------
# the generated tables as traces (engine `ffitable`)

def load_tables():
    if not os.path.exists(TABLES_JSON):
        return None
    return json.load(open(TABLES_JSON))


def q(s):
    return urllib.parse.quote(s, safe="") or "-"


def table_trace(tables, kind, name):
    """observation lines of one generated table, everything the rules need"""
    if tables is None:
        return ["missing-tables"]
    if kind == "enum":
        t = next((t for t in tables["enum_tables"] if t["name"] == name), None)
        if t is None:
            return ["no-such-table"]
        L = ["where %s:%d %s %s" % (t["file"], t["line"], q(t["src_enum"]), q(t["dst_enum"])),
             "wild %d" % (1 if t["wild"] else 0),
             "src " + " ".join(t["src"]), "dst " + " ".join(t["dst"])]
        L += ["arm %s %s" % (a[0], a[1]) for a in t["arms"]]
        L += ["pinned %s %s" % (p[0], p[1]) for p in t["pinned"]]
        L += ["deviation %s" % d[1] for d in tables["known_enum_deviations"] if d[0] == name]
        return L
    t = next((t for t in tables["struct_tables"] if t["name"] == name), None)
    if t is None:
        return ["no-such-table"]
    L = ["where %s:%d %s" % (t["file"], t["line"], q(t["target"]))]
    for r in t["fields"]:
        L.append("field %s %s %s" % (r["field"], q(r["const"] or ""), " ".join(".".join(c) for c in r["chains"])))
    L += ["alias %s %s" % (a[0], a[1]) for a in t["aliases"]]
    L += ["const %s %s" % (c[0], q(c[1])) for c in t["consts"]]
    L += ["deviation %s" % d[1] for d in tables["known_field_deviations"] if d[0] == name]
    return L


def check_enum_trace(lines):
    """the rules of coq/Ffi/FfiModel.v (arm_ok, arms_wellformed, total_ok, wildcard_ok, pins_ok),
    re-implemented on the trace; returns [(clause, key, text)]"""
    where = lines[0].split(" ", 2)[1] if lines and lines[0].startswith("where ") else "?"
    get = lambda k: [[x for x in l.split(" ")[1:] if x] for l in lines if l == k or l.startswith(k + " ")]
    wild = get("wild") == [["1"]]
    src = (get("src") or [[]])[0]
    dst = (get("dst") or [[]])[0]
    arms = [tuple(a) for a in get("arm")]
    pinned = dict(tuple(p) for p in get("pinned"))
    devs = {d[0] for d in get("deviation")}
    out = []
    srcs = [a[0] for a in arms]
    for s, d in arms:
        if s in dst:
            if d != s:
                kind = "known-deviation" if s in devs else "namesake"
                out.append((kind, s, "%s: source variant `%s` has a namesake in the target enum but is mapped to `%s`" % (where, s, d)))
        elif pinned.get(s) != d:
            out.append(("fallback", s, "%s: source `%s` has no namesake in the target enum and is mapped to `%s`, pinned target is %s"
                        % (where, s, d, pinned.get(s, "missing in ffi_fallbacks.json"))))
        if s != "_" and s not in src:
            out.append(("wellformed", s, "%s: arm for `%s` which is not a variant of the source enum" % (where, s)))
        if d not in DELEG and d not in dst:
            out.append(("wellformed", s, "%s: arm `%s` yields `%s` which is not a variant of the target enum" % (where, s, d)))
        if srcs.count(s) > 1:
            out.append(("wellformed", s, "%s: source variant `%s` matched twice" % (where, s)))
    wt = dict(arms).get("_")
    for v in src:
        if v not in srcs and not (wild and wt is not None and pinned.get(v) == wt):
            out.append(("total", v, "%s: source variant `%s` has no arm of its own and is not pinned to the catch-all" % (where, v)))
    if wild != ("_" in srcs):
        out.append(("wildcard", "_", "%s: catch-all flag and arms disagree" % where))
    for s, d in pinned.items():
        ok = wild if s == "_" else (s in src and s not in dst and (s in srcs or wild))
        if not ok:
            out.append(("stale-pin", s, "%s: pinned fallback `%s -> %s` is not needed by this table" % (where, s, d)))
    for s in devs:
        if not any(c[0] == "known-deviation" and c[1] == s for c in out):
            out.append(("stale-deviation", s, "%s: known deviation `%s` no longer deviates" % (where, s)))
    return out


def check_struct_trace(lines):
    where = lines[0].split(" ", 2)[1] if lines and lines[0].startswith("where ") else "?"
    aliases = {tuple(l.split(" ")[1:3]) for l in lines if l.startswith("alias ")}
    consts = {tuple(l.split(" ")[1:3]) for l in lines if l.startswith("const ")}
    devs = {l.split(" ")[1] for l in lines if l.startswith("deviation ")}
    out = []
    seen = []
    used_alias, used_const = set(), set()
    for l in lines:
        if not l.startswith("field "):
            continue
        t = l.split(" ")
        f, const, chains = t[1], t[2], [c.split(".") for c in t[3:] if c]
        if f in seen:
            out.append(("wellformed", f, "%s: field `%s` assigned twice" % (where, f)))
        seen.append(f)
        if not chains:
            if (f, const) not in consts:
                out.append(("known-deviation" if f in devs else "field-constant", f,
                            "%s: field `%s` is assigned the constant `%s` instead of its namesake" % (where, f, urllib.parse.unquote(const))))
            used_const.add((f, const))
            continue
        for ch in chains:
            hit = [s for s in ch if s == f or (f, s) in aliases]
            used_alias |= {(f, s) for s in ch if (f, s) in aliases}
            if not hit:
                out.append(("known-deviation" if f in devs else "field-namesake", f,
                            "%s: field `%s` is computed from `%s`, not from its namesake" % (where, f, ".".join(ch))))
    for a in aliases - used_alias:
        out.append(("stale-pin", a[0], "%s: alias %s <- %s is not used" % (where, a[0], a[1])))
    for c in consts - used_const:
        out.append(("stale-pin", c[0], "%s: constant pin for `%s` is not used" % (where, c[0])))
    for f in devs:
        if not any(c[0] == "known-deviation" and c[1] == f for c in out):
            out.append(("stale-deviation", f, "%s: known deviation `%s` no longer deviates" % (where, f)))
    return out


# ------------------------------------------------------------------------------------------------

def c20_run_cases(prop, cases, tag):
    work = os.path.join(WORK, prop.id)
    os.makedirs(work, exist_ok=True)
    impl = {}
    tables = load_tables() if not prop.translator_failed() else None
    ffi_scripts = []
    for c in cases:
        head = c.script.split("\n", 1)[0].split()
        if head[2] == "ffitable":
            kind = [t.split("=", 1)[1] for t in head[3:] if t.startswith("kind=")][0]
            name = urllib.parse.unquote(c.script.split("\n")[1].split(" ", 1)[1])
            impl[c.sid] = table_trace(tables, kind, name)
        else:
            ffi_scripts.append(c.script)
    if ffi_scripts:
        impl.update(run_ffi_shards(ffi_scripts, work, tag))
    model = {c.sid: ["n/a (impl_only: the oracle compares the ffi and native lines pairwise)"] for c in cases}
    return impl, model


_orig_run_cases = propcheck.run_cases


def _dispatch_run_cases(prop, cases, tag):
    if getattr(prop, "id", None) == "C20":
        return c20_run_cases(prop, cases, tag)
    return _orig_run_cases(prop, cases, tag)


propcheck.run_cases = _dispatch_run_cases


class C20(Prop):
    id = "C20"
    translators = ["gen_ffi"]
    proof_targets = ["Ffi/FfiProofs.vo"]
    property_file = "Properties/C20.v"
    theorems = []  # filled from Properties/C20.v by check
    modelled = ("regenerated from source on every run: every enum / struct conversion of ffi/dnp3-ffi/src "
                "(tools/gen/gen_ffi.py, pins in ffi_fallbacks.json, hash-pinned skip list ffi_skipped.json); "
                "database operations through the binding are NOT modelled in Coq: decided by correspondence of "
                "dnp3_database_* (C ABI) against the native Database API in /verif/harness_ffi (hook H4); "
                "static/event variations of a point configuration are not observable through Database::get "
                "(covered by the tables only)")
    rule = ("(a) one case per generated conversion table, its rules re-evaluated in Python; (b) random lists of "
            "add/update/update2/update_flags/get/remove over the eight point types with flags, time stamps of the "
            "three qualities, update options, event classes, variations and dead bands, small event buffers so "
            "that Overflow occurs; each op executed through the C functions and natively on twin databases; a "
            "script is non-trivial when an operation created an event or added a point; distinct = distinct trace")
    extra_assumptions = ["trusted for the database part: /verif/harness_ffi (by-name pairing of binding and native "
                         "enum values in the harness), oo-bindgen's generated C shims, tokio runtime that is never driven"]

    def translator_failed(self):
        return not os.path.exists(TABLES_JSON)

    # ---- case generation -------------------------------------------------------------------

    def gen_update_args(self, rng, ty):
        if ty in ("bi", "bos"):
            v = str(rng.below(2))
        elif ty == "dbbi":
            v = rng.choice(DB_VALUES)
        elif ty in ("ctr", "fctr"):
            v = str(rng.choice([0, 1, 2, 5, 6, 1000, 4294967295, rng.below(1 << 32)]))
        else:
            v = rng.choice(F64_POOL) if rng.chance(3, 4) else "%016x" % rng.below(1 << 64)
        return v

    def gen_opts(self, rng):
        return [str(rng.choice([1, 1, 1, 0])), rng.choice(["detect", "detect", "force", "suppress"])]

    def gen_time(self, rng):
        return [rng.choice(["inv", "sync", "unsync"]), str(rng.choice(TIME_POOL) if rng.chance(1, 2) else rng.below(1 << 48))]

    def gen_script(self, rng, sid):
        types = []
        for _ in range(rng.range(1, 3)):
            types.append(rng.choice(list(TYPES)))
        idxs = [0, 1, 2, 7, 65535]
        ops = []
        live = []
        last = {}     # (type, index) -> (last numeric value written, its flags)

        def add(ty, idx):
            sv, ev, has_db = TYPES[ty]
            cls = rng.choice(["none", "c1", "c2", "c3", "c1", "c2"])
            if ty == "os":
                ops.append(["add", ty, idx, cls])
            else:
                ops.append(["add", ty, idx, cls, rng.choice(sv), rng.choice(ev), rng.choice(DEADBANDS) if has_db else DEADBANDS[0]])
            if (ty, idx) not in live:
                live.append((ty, idx))

        for ty in sorted(set(types)):
            add(ty, rng.choice(idxs[:2]))
        nops = rng.range(8, 28)
        for k in range(nops):
            if live and rng.chance(5, 6):
                ty, idx = rng.choice(live)      # mostly operate on points that exist
            else:
                ty, idx = rng.choice(types), rng.choice(idxs)
            r = rng.below(100)
            if r < 10:
                add(ty, idx)
            elif r < 66:
                name = "upd2" if rng.chance(2, 3) else "upd"
                if ty == "os":
                    n = rng.choice([0, 1, 2, 3, 255, 256]) if rng.chance(1, 4) else rng.range(1, 12)
                    ops.append([name, ty, idx, hexs(rng.bytes(n))] + self.gen_opts(rng))
                elif ty in ("ai", "aos", "ctr", "fctr") and (ty, idx) in last and rng.chance(1, 2):
                    # stay close to the previous value with unchanged flags: only the dead band of the
                    # point configuration decides whether an event is produced
                    v0, f0 = last[(ty, idx)]
                    delta = rng.choice([0, 1, 4, 5, 6, 999, 1000, 1001]) * rng.choice([1, -1])
                    if ty in ("ai", "aos"):
                        v1 = v0 + delta + rng.choice([0.0, 0.5])
                        tok = "%016x" % struct.unpack("<Q", struct.pack("<d", v1))[0]
                    else:
                        v1 = min(max(v0 + delta, 0), 4294967295)
                        tok = str(v1)
                    last[(ty, idx)] = (v1, f0)
                    ops.append([name, ty, idx, tok, f0] + self.gen_time(rng) + ["1", "detect"])
                else:
                    tok = self.gen_update_args(rng, ty)
                    fl = rng.choice(FLAGS_POOL) if rng.chance(3, 4) else rng.below(256)
                    if ty in ("ai", "aos"):
                        fv = struct.unpack("<d", struct.pack("<Q", int(tok, 16)))[0]
                        if fv == fv and abs(fv) < 1e12:
                            last[(ty, idx)] = (fv, fl)
                        else:
                            last.pop((ty, idx), None)
                    elif ty in ("ctr", "fctr"):
                        last[(ty, idx)] = (int(tok), fl)
                    ops.append([name, ty, idx, tok, fl] + self.gen_time(rng) + self.gen_opts(rng))
            elif r < 78 and ty != "os":
                ops.append(["flg", ty, idx, rng.choice(FLAGS_POOL)] + self.gen_time(rng) + self.gen_opts(rng))
            elif r < 94:
                ops.append(["get", ty, idx])
            else:
                ops.append(["rem", ty, idx])
                if (ty, idx) in live:
                    live.remove((ty, idx))
        cfg = {"evbuf": rng.choice([1, 2, 3, 10])}
        return Case(sid, script_text(sid, "ffi", cfg, ops),
                    {"impl_only": True, "kind": "db-" + "+".join(sorted(set(types))), "nops": len(ops)})

    def table_cases(self):
        tables = load_tables()
        if tables is None or self.translator_failed():
            return []
        out = []
        for i, t in enumerate(tables["enum_tables"]):
            sid = "c20_enum_%d" % i
            out.append(Case(sid, "S %s ffitable kind=enum\ntable %s\nE" % (sid, q(t["name"])),
                            {"impl_only": True, "kind": "table-enum", "table": t["name"], "file": t["file"], "line": t["line"]}))
        for i, t in enumerate(tables["struct_tables"]):
            sid = "c20_struct_%d" % i
            out.append(Case(sid, "S %s ffitable kind=struct\ntable %s\nE" % (sid, q(t["name"])),
                            {"impl_only": True, "kind": "table-struct", "table": t["name"], "file": t["file"], "line": t["line"]}))
        return out

    def cases(self, rng, tier):
        # replays of an earlier run would otherwise be mistaken for results of this one
        d = os.path.join(VERIF, "replays", self.id)
        if os.path.isdir(d):
            for f in os.listdir(d):
                if f.startswith("violation_") or f == "unexplained.json":
                    os.remove(os.path.join(d, f))
        n = 240 if tier == "quick" else 4000
        db = [self.gen_script(rng, "c20_db_%d" % i) for i in range(n)]
        return db[:2] + self.table_cases() + db[2:]

    # ---- oracle ----------------------------------------------------------------------------

    def oracle(self, case, impl):
        head = case.script.split("\n", 1)[0].split()
        fails = []
        if head[2] == "ffitable":
            if impl and impl[0] in ("missing-tables", "no-such-table", "missing"):
                return [("table-missing", "table %s is not among the generated tables (%s)" % (case.meta.get("table"), impl[0]))]
            kind = [t.split("=", 1)[1] for t in head[3:] if t.startswith("kind=")][0]
            name = urllib.parse.unquote(case.script.split("\n")[1].split(" ", 1)[1])
            res = check_enum_trace(impl) if kind == "enum" else check_struct_trace(impl)
            for clause, key, text in res:
                fails.append(("%s|%s|%s" % (clause, name, key), "%s [%s]" % (text, name)))
            return fails
        nops = len([l for l in case.script.split("\n")[1:-1] if l.strip()])
        for l in impl:
            if l.startswith("panic") or l.startswith("harness-died") or l == "missing" or l.startswith("unknown-engine"):
                fails.append(("harness|%s" % l.split(" ")[0], "ffi harness: " + l[:300]))
        if fails:
            return fails
        if len(impl) != 2 * nops:
            return [("harness|linecount", "%d observation lines for %d operations" % (len(impl), nops))]
        for i in range(0, len(impl), 2):
            f, n = impl[i], impl[i + 1]
            if not f.startswith("ffi ") or not n.startswith("native "):
                fails.append(("harness|format", "lines out of order: %s / %s" % (f[:80], n[:80])))
                break
            if f[4:] != n[7:]:
                t = f.split(" ")
                fails.append(("ffi-native-differ|%s" % t[1],
                              "operation #%d `%s`: through the binding `%s`, natively `%s`"
                              % (i // 2, case.script.split("\n")[1 + i // 2], f[4:], n[7:])))
                break
        return fails

    def nontrivial(self, case, impl):
        if case.meta.get("kind", "").startswith("table"):
            return any(l.startswith("arm ") or l.startswith("field ") for l in impl)
        return any(("ret=created" in l or "ret=overflow" in l or (l.startswith("native add") and "ret=true" in l)) for l in impl)

    def finding_signature(self, case, clause, desc):
        return clause


PROP = C20()
