"""C05 — A retransmitted request is answered from memory and never executed twice."""
from ost import *

EXEC_CBS = ("select", "operate", "write_time", "cold_restart", "warm_restart", "freeze", "write_attr", "begin_fragment")


class C05(OutstationProp):
    id = "C05"
    proof_targets = ["Outstation/SessionC05Proofs.vo", "Outstation/FullCorollaries.vo"]
    property_file = "Properties/C05.v"
    rule = ("session histories in which requests of every executed function code are repeated once or several times: from "
            "idle, during a solicited confirm wait (any fragment of a multi-fragment series), during an unsolicited "
            "confirm wait; small transmit buffers force series; non-trivial = a fragment was transmitted")

    def cases(self, rng, tier):
        n = 600 if tier == "quick" else 5000
        out = self.cases_session(rng, n // 2, focus=None)
        out += self.cases_series(rng, n // 4)
        out += self.cases_unsol_wait(rng, n // 4)
        out += self.cases_deferred_repeat(rng, 40 if tier == "quick" else 800)
        return out

    def cases_deferred_repeat(self, rng, n):
        """a READ deferred during an unsolicited confirm wait is answered when the series ends; if that answer asks
        for a confirm, a retransmission of the READ during the SOLICITED confirm wait must be echoed as the very
        fragment sent before - IIN bits (restart, class, broadcast, application) and a forced CON included
        (seeded change C05_c: the remembered response lacked what write_solicited merged into the header)"""
        out = []
        for i in range(n):
            cfg = {"unsol": 1, "soltx": rng.choice([249, 2048]), "confirm_ms": 1000, "retries": "0", "retry_delay_ms": 500,
                   "sel": 0, "op": 0, "decode": rng.below(4), "evbuf": 50, "appiin": rng.choice([0, 0, 1, 6, 15])}
            ops = [("add", "binary", 0, 1), ("add", "analog", 1, 2)]
            seq = rng.below(16)
            ops.append(("rx", MASTER, "none", hexs(frag(0, FN["confirm"], uns=True))))
            ops.append(("rx", MASTER, "none", hexs(frag(seq, FN["enable"], read_classes((1, 2, 3)))))); seq = (seq + 1) & 15
            if rng.chance(1, 3):
                ops.append(("rx", MASTER, "none", hexs(frag(seq, FN["write"], write_iin(7, 0))))); seq = (seq + 1) & 15   # restart bit cleared
            for k in range(rng.range(1, 3)):
                ops.append(("update", "binary", 0, str(k & 1 ^ 1), 1, 100 + k))
            req = frag(seq, FN["read"], read_classes(rng.choice([(1, 2, 3), (1,), (1, 2, 3, 0)])))
            ops.append(("rx", MASTER, "none", hexs(req)))                  # deferred
            if rng.chance(1, 4):
                ops.append(("rx", MASTER, rng.choice(["mand", "opt"]), hexs(frag(rng.below(16), FN["record"]))))
                ops.append(("rx", MASTER, "none", hexs(req)))              # the broadcast cancelled the deferral: send it again
            if rng.chance(3, 4):
                ops.append(("sleep", 1001))                                # unsolicited confirm timeout: READ answered with the events
            else:
                ops.append(("rx", MASTER, "none", hexs(frag(1, FN["confirm"], uns=True))))
            for _ in range(rng.range(1, 2)):
                ops.append(("rx", MASTER, "none", hexs(req)))              # retransmitted during the solicited confirm wait
            if rng.chance(1, 2):
                ops.append(("rx", MASTER, "none", hexs(frag(seq, FN["confirm"]))))
            sid = "c05_d_%d" % i
            out.append(Case(sid, script_text(sid, "outstation", cfg, ops), {"kind": "deferred-repeat", "cfg": cfg}))
        return out

    def cases_unsol_wait(self, rng, n):
        """every executed function code, WITH and WITHOUT a response, repeated while an unsolicited response
        (null or data) awaits its confirm, and from idle"""
        out = []
        for i in range(n):
            cfg = self.base_cfg(rng, unsol=1)
            cfg["confirm_ms"] = 5000
            ops = [("add", "binary", 0, 1)]
            seq = rng.below(16)
            data_wait = rng.chance(2, 3)
            if data_wait:
                ops.append(("rx", MASTER, "none", hexs(frag(0, FN["confirm"], uns=True))))      # confirm the null response
                ops.append(("rx", MASTER, "none", hexs(frag(seq, FN["enable"], read_classes((1, 2, 3)))))); seq = (seq + 1) & 15
                ops.append(("update", "binary", 0, "1", 1, 100))                                # -> data unsolicited, now waiting
            for _ in range(rng.range(1, 4)):
                kind = rng.choice(["direct_nr", "freeze_nr", "freeze_clear_nr", "direct", "write", "delay", "record", "select", "cold", "freeze"])
                if kind in ("direct_nr", "direct", "select"):
                    req = frag(seq, FN[kind], self.rand_controls(rng))
                elif kind.startswith("freeze"):
                    req = frag(seq, FN[kind], bytes([0x14, 0x00, 0x06]))
                elif kind == "write":
                    req = frag(seq, FN["write"], write_iin(7, 0))
                else:
                    req = frag(seq, FN[kind])
                ops.append(("rx", MASTER, "none", hexs(req)))
                if rng.chance(1, 3):
                    ops.append(("update", "binary", 0, str(rng.below(2)), 1, 200 + rng.below(100)))
                for _r in range(rng.range(1, 2)):
                    ops.append(("rx", MASTER, "none", hexs(req)))
                seq = (seq + 1) & 15
            if rng.chance(1, 2):
                # the retry after a confirm timeout must be the fragment sent before, whatever changed in between
                # (new event -> class bit, application IIN, broadcast): seeded changes C14_a / C05_b
                cfg["retries"] = rng.choice(["none", "2", "3"])
                cfg["retry_delay_ms"] = rng.choice([0, 500, 1000])
                what = rng.choice(["update", "appiin", "bcast", "update"])
                if what == "update":
                    ops.append(("update", "binary", 0, str(rng.below(2)), 1, 400 + rng.below(100)))
                elif what == "appiin":
                    ops.append(("appiin", rng.range(1, 15)))
                else:
                    ops.append(("rx", MASTER, rng.choice(["opt", "mand", "notreq"]), hexs(frag(rng.below(16), FN["record"]))))
                for _ in range(rng.range(1, 3)):
                    ops.append(("sleep", 5000 + int(cfg["retry_delay_ms"]) + 1))
            sid = "c05_u_%d" % i
            out.append(Case(sid, script_text(sid, "outstation", cfg, ops), {"kind": "unsol-wait", "cfg": cfg}))
        return out

    def cases_series(self, rng, n):
        """multi-fragment responses (many points, smallest buffer) with repeats of the READ placed while
        fragment k awaits its confirm"""
        out = []
        for i in range(n):
            cfg = {"unsol": 0, "soltx": 249, "confirm_ms": 5000, "sel": 0, "op": 0, "decode": rng.below(4)}
            ops = []
            npts = rng.choice([60, 120, 150])
            for k in range(npts):
                ops.append(("add", "analog", k, 0))
            seq = rng.below(16)
            req = frag(seq, FN["read"], read_classes((0,)))
            ops.append(("rx", MASTER, "none", hexs(req)))
            s = seq
            for k in range(rng.range(1, 4)):
                a = rng.below(4)
                if a == 0:
                    ops.append(("rx", MASTER, "none", hexs(req)))          # repeat while waiting
                elif a == 1:
                    ops.append(("rx", MASTER, "none", hexs(req)))
                    ops.append(("rx", MASTER, "none", hexs(req)))
                ops.append(("rx", MASTER, "none", hexs(frag(s, FN["confirm"]))))
                s = (s + 1) & 15
            ops.append(("rx", MASTER, "none", hexs(req)))
            sid = "c05_m_%d" % i
            out.append(Case(sid, script_text(sid, "outstation", cfg, ops), {"kind": "series", "cfg": cfg}))
        return out

    def oracle(self, case, impl):
        fails = self.common_fail(impl)
        cfg = case.meta.get("cfg", {})
        any_master = int(cfg.get("anymaster", 0)) == 1
        steps = split_steps(impl)
        all_tx = []           # every fragment transmitted so far (bytes)
        prev = None           # (bytes, from, tx list) of the previous accepted unicast non-confirm request
        waiting = False       # in a solicited confirm wait
        for op, t, lines in steps:
            step_tx = [b for (_, _, b) in txs(lines)]
            step_sol = [b for b in step_tx if len(b) >= 2 and b[1] == 129]
            if op[0] in ("disconnect", "bounce"):
                prev = None; waiting = False
            if op[0] == "rx":
                frm, bc = int(op[1]), op[2]
                b = bytes.fromhex(op[3]) if op[3] != "-" else b""
                dig = [l for l in lines if " > digest " in l]
                wellformed = bool(dig) and all(x in dig[0].split() for x in ("hp=ok", "rv=ok", "obj=ok"))
                # only a request that passed header validation and object parsing is "processed" and remembered
                accepted = bc == "none" and (any_master or frm == MASTER) and len(b) >= 2 and wellformed
                is_confirm = len(b) >= 2 and b[1] == 0
                if bc == "none" and (any_master or frm == MASTER) and not wellformed and not is_confirm:
                    prev = None       # another fragment came in between: what follows is no retransmission of the last request
                if accepted and not is_confirm:
                    if prev is not None and prev[0] == b and prev[1] == frm:
                        # a retransmission of the request processed last
                        if b[1] != 1:
                            executed = [c for c in cbs(lines) if c[0] in EXEC_CBS]
                            if executed:
                                fails.append(("repeat-reexecuted", "a repeated non-READ request (function %d) was executed again: %s" % (b[1], executed[0][:3])))
                            if prev[2] and step_sol[:1] != prev[2][:1]:
                                fails.append(("repeat-reply-differs", "reply to a repeated request differs from the response sent before: %s vs %s"
                                              % (step_sol[0].hex() if step_sol else "nothing", prev[2][0].hex())))
                        elif waiting and step_tx:
                            for x in step_tx:
                                if x not in all_tx:
                                    fails.append(("resend-is-mixture", "the echo of a READ repeated during the confirm wait is not a fragment sent before: " + x.hex()[:60]))
                        prev = (b, frm, prev[2] if not step_sol else step_sol)
                    else:
                        prev = (b, frm, step_sol)
            # unsolicited retries must be identical to the response sent before
            for l in lines:
                tk = l.split()
                if len(tk) >= 5 and tk[1] == "info" and tk[2] == "unsol_timeout" and tk[4] == "1":
                    idx = lines.index(l)
                    later = [b for (_, _, b) in txs(lines[idx:])]
                    if later and later[0] not in all_tx:
                        fails.append(("unsol-retry-differs", "an unsolicited retry is not identical to a fragment sent before: " + later[0].hex()[:60]))
            for l in lines:
                tk = l.split()
                if len(tk) >= 3 and tk[1] == "info":
                    if tk[2] == "enter_sol_wait": waiting = True
                    if tk[2] in ("sol_timeout", "sol_new_request"): waiting = False
                    if tk[2] == "sol_confirmed": waiting = False
                if len(tk) >= 4 and tk[1] == "tx":
                    all_tx.append(bytes.fromhex(tk[3]))
                    # a further fragment after a confirm means the wait goes on
                    if len(bytes.fromhex(tk[3])) >= 1 and bytes.fromhex(tk[3])[0] & 0x20 and not bytes.fromhex(tk[3])[0] & 0x10:
                        waiting = True
        return fails

    def finding_signature(self, case, clause, desc):
        return clause


PROP = C05()
