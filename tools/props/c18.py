"""C18 — Time synchronisation sets the outstation's clock to the master's.

Engine `tsync`: a real master task and a real outstation task joined by a scripted channel under the
paused clock (harness/tsync.rs); model: coq/Master/TimeSync.v (extracted, ocaml/eng_tsync.ml)."""
import os, subprocess
from propcheck import *

MAXTS = (1 << 48) - 1
C0_POOL = [0, 1, 1 << 47, MAXTS - 1, MAXTS, 1614271096000]
DELAYS = [0, 1, 2, 3, 500, 65534, 65535, 65536, 70000]
SMALL = [0, 1, 2, 3, 7, 10, 99, 500]
TMO_BIG = 400003        # above every round trip that is generated, never a sum of pool values
PROCS = ["lan", "nonlan", "direct"]


def le48(v):
    return "".join("%02x" % ((v >> (8 * i)) & 0xFF) for i in range(6))


def py_clock(c0, t, on=True):
    v = c0 + t
    return v if on and v <= MAXTS else None


def py_plain(proc, c0, t0, f1, hb1, f2, hb2, tmo, rep, need, on=True):
    """ground truth for one undisturbed synchronisation, written independently of the Coq model.
    hb = actual processing delay + backward delay.  Returns (result, kind|None, written|None, t_written|None)."""
    c = py_clock(c0, t0, on)
    if c is None:
        return ("err", "nosystime", None, None)
    ta1 = t0 + f1
    tr1 = ta1 + hb1
    still_need = {"auto": False, "stuck": True, "clear": False}[need]
    if proc == "direct":
        if tr1 - t0 >= tmo:
            return ("err", "timeout", c, ta1)
        return ("err", "needtime", c, ta1) if still_need else ("ok", None, c, ta1)
    if tr1 - t0 >= tmo:
        return ("err", "timeout", None, None)
    ta2 = tr1 + f2
    tr2 = ta2 + hb2
    if proc == "lan":
        w = c + (ta2 - ta1)
        if w > MAXTS:
            return ("err", "iin2", None, None)
    else:
        rtt = tr1 - t0
        if rtt < rep:
            return ("err", "delay %d" % rep, None, None)
        c1 = py_clock(c0, tr1, on)
        if c1 is None:
            return ("err", "nosystime", None, None)
        w = c1 + (rtt - rep) // 2
        if w > MAXTS:
            return ("err", "overflow", None, None)
    if tr2 - tr1 >= tmo:
        return ("err", "timeout", w, ta2)
    return ("err", "needtime", w, ta2) if still_need else ("ok", None, w, ta2)


def timeline(events, tail):
    """events: list of (instant, op tuple); equal instants keep the order in which they were listed"""
    ops = []
    now = 0
    for _, (t, op) in sorted(enumerate(events), key=lambda e: (e[1][0], e[0])):
        if t > now:
            ops.append(("run", t - now))
            now = t
        ops.append(op)
    ops.append(("run", tail))
    return ops


class Scenario:
    def __init__(self, proc, c0, tmo=TMO_BIG, need="auto"):
        self.proc, self.c0, self.tmo, self.need = proc, c0, tmo, need
        self.events = []
        self.expect = {}
        self.end = 0
        self.meta = {}

    def plain(self, tok, t0, f1, b1, h1, f2=None, b2=None, rep=0, plain_cfg=False):
        """schedule one synchronisation; the second exchange gets its own delays when the timeline
        leaves room to change them between the two requests / the two responses"""
        ev = self.events
        ev += [(t0, ("fwd", f1)), (t0, ("back", b1)), (t0, ("hold", h1)), (t0, ("proc", rep)), (t0, ("sync", tok))]
        ta1 = t0 + f1
        tr1 = ta1 + h1 + b1
        # an op placed at instant tc acts on what is sent after tc: the forward delay of the second
        # request can change at t0+1 if that is before the second request (tr1); the backward delay of
        # the second response at max(ta1, t0+1) if that is before the second response (ta2)
        if f2 is not None and f2 != f1 and t0 + 1 < tr1:
            ev.append((t0 + 1, ("fwd", f2)))
        else:
            f2 = f1
        ta2 = tr1 + f2
        if b2 is not None and b2 != b1 and max(ta1, t0 + 1) < ta2:
            ev.append((max(ta1, t0 + 1), ("back", b2)))
        else:
            b2 = b1
        tr2 = ta2 + h1 + b2
        r = py_plain(self.proc, self.c0, t0, f1, h1 + b1, f2, h1 + b2, self.tmo, min(rep, 65535), self.need)
        self.expect[tok] = r[0] if r[0] == "ok" else "err " + r[1]
        self.end = max(self.end, tr2 if self.proc != "direct" else tr1, t0 + self.tmo if r[1] == "timeout" else 0)
        info = {"t0": t0, "f1": f1, "b1": b1, "h": h1, "f2": f2, "b2": b2, "rep": min(rep, 65535),
                "ta1": ta1, "tr1": tr1, "ta2": ta2, "tr2": tr2, "truth": list(r),
                # instants at which an op touches only the second message of a direction (None: impossible)
                "second_fwd": t0 + 1 if t0 + 1 < tr1 else None,
                "second_back": max(ta1, t0 + 1) if max(ta1, t0 + 1) < ta2 else None}
        self.meta.setdefault("syncs", {})[tok] = info
        if plain_cfg:
            self.cfg_extra = {"plain": 1, "ptok": tok, "pt0": t0, "pf1": f1, "pb1": h1 + b1, "pf2": f2,
                              "pb2": h1 + b2, "prep": min(rep, 65535)}
        return info

    def script(self, sid, tail=5):
        cfg = {"c0": self.c0, "proc": self.proc, "timeout": self.tmo, "need": self.need}
        cfg.update(getattr(self, "cfg_extra", {}))
        ops = timeline(self.events, max(0, self.end - max([t for t, _ in self.events] + [0])) + tail)
        return script_text(sid, "tsync", cfg, ops)


class C18(Prop):
    id = "C18"
    translators = ["gen_master_tables"]
    proof_targets = ["Master/TimeSync.vo", "Master/TimeSyncProofs.vo", "Master/TablesAgree.vo"]
    property_file = "Properties/C18.v"
    theorems = []
    modelled = ("modelled by hand: master/tasks/time.rs (TimeSyncTask), the response validation of "
                "master/task.rs, outstation/session.rs (record current time, delay measure, write g50v1/g50v3, "
                "duplicate detection), app/types.rs (Timestamp::checked_add) in Master/TimeSync.v; the channel of the "
                "tsync engine is part of the model and of the harness (trusted)")
    rule = ("a real master task and a real outstation task under the paused clock, every fragment carried by a "
            "scripted channel (forward/backward/processing delays 0..70000 ms, drops, duplicates, tampered "
            "responses, injected unsolicited and wrong-sequence responses, master clock 0..2^48-1); the oracle "
            "compares every written time with c0 + instant of writing; non-trivial = a synchronisation completed; "
            "distinct = distinct (config, trace)")

    # ------------------------------------------------------------------------------------------
    def rand_delay(self, rng, pool=DELAYS):
        return rng.choice(pool) if rng.chance(2, 3) else rng.range(0, 70000)

    def rand_c0(self, rng):
        return rng.choice(C0_POOL) if rng.chance(1, 2) else rng.below(MAXTS + 1)

    def injections(self, rng, seqs):
        """unrelated fragments for the master: unsolicited responses (with and without CON, null and
        with an event object, NEED_TIME set or not) and solicited responses with a wrong sequence"""
        out = []
        useq = rng.below(16)
        wrong = rng.choice([q for q in range(16) if q not in seqs])
        kind = rng.choice(["unsol", "unsol-need", "unsol-nocon", "unsol-data", "wrongseq", "wrongseq-need", "wrongseq-delay",
                           "wrongseq-objs"])
        if kind == "unsol":
            return "%02x820000" % (0xF0 | useq)
        if kind == "unsol-need":
            return "%02x821000" % (0xF0 | useq)
        if kind == "unsol-nocon":
            return "%02x820000" % (0xD0 | useq)
        if kind == "unsol-data":
            return "%02x820000020117010081" % (0xF0 | useq)
        if kind == "wrongseq":
            return "%02x810000" % (0xC0 | wrong)
        if kind == "wrongseq-need":
            return "%02x811000" % (0xC0 | wrong)
        if kind == "wrongseq-delay":
            return "%02x81000034020701ffff" % (0xC0 | wrong)
        return "%02x8100003201070100000000ffff" % (0xC0 | wrong)

    def one_case(self, rng, i, tier, force=None):
        sid = "c18_%d" % i
        kind = rng.choice(["plain", "plain", "plain", "varied", "inject", "inject", "inject", "dishonest", "saturated",
                           "need", "tamper", "tamper", "drop", "dup", "overflow", "overflow", "noclock", "multi",
                           "timeout-edge", "late", "chaos", "chaos", "chaos"])
        proc = rng.choice(PROCS)
        if force is not None:
            kind, proc = "overflow", force[0]
        c0 = self.rand_c0(rng)
        meta = {"kind": kind, "proc": proc, "c0": c0}

        def finish(sc, extra=None, tail=5):
            meta.update(sc.meta)
            meta["expect"] = sc.expect
            meta["need"] = sc.need
            if extra:
                meta.update(extra)
            return Case(sid, sc.script(sid, tail), meta)

        if kind == "chaos":
            # everything at once, no expectation beyond the generic ones: several requests, changing
            # delays, losses, duplicates (also stale ones that arrive during a later exchange),
            # tampered responses, injected fragments, the master clock switched off and on
            if c0 > MAXTS - 5000000 and rng.chance(3, 4):
                c0 = rng.below(1 << 47); meta["c0"] = c0
            sc = Scenario(proc, c0, tmo=rng.choice([301, 1001, 5003]), need=rng.choice(["auto", "auto", "stuck", "clear"]))
            small = [0, 0, 1, 2, 3, 10, 50, 200, 400, 1200]
            t = 0
            nsync = 0
            for _ in range(rng.range(4, 16)):
                what = rng.choice(["sync", "sync", "fwd", "back", "hold", "proc", "drop", "dup", "tamper", "inject",
                                   "inject", "mclock", "wait", "wait"])
                if what == "sync" and nsync < 4:
                    tok = "abcd"[nsync]; nsync += 1
                    sc.events.append((t, ("sync", tok))); sc.expect[tok] = "any"
                elif what in ("fwd", "back", "hold"):
                    sc.events.append((t, (what, rng.choice(small))))
                elif what == "proc":
                    sc.events.append((t, ("proc", rng.choice(small + [65535, 70000]))))
                elif what == "drop":
                    sc.events.append((t, ("drop", rng.choice(["fwd", "back"]))))
                elif what == "dup":
                    sc.events.append((t, ("dup", rng.choice(["fwd", "back"]), rng.choice([0, 1, 7, 150, 900, 2500]))))
                elif what == "tamper":
                    sc.events.append((t, rng.choice([("tamper", "objs", "340207010500"), ("tamper", "objs", "-"),
                                                     ("tamper", "iin", "1000"), ("tamper", "iin", "0004"),
                                                     ("tamper", "ctl", "40"), ("tamper", "ctl", "%02x" % rng.range(1, 15))])))
                elif what == "inject":
                    sc.events.append((t, ("inject_master", self.injections(rng, []))))
                elif what == "mclock":
                    sc.events.append((t, ("mclock", rng.choice(["on", "off"]))))
                else:
                    t += rng.choice([0, 1, 2, 5, 40, 300, 1000, 2000])
            if nsync == 0:
                sc.events.append((t, ("sync", "a"))); sc.expect["a"] = "any"
            sc.end = t + 4 * 5003 * max(1, nsync) + 8000
            return finish(sc, {"honest": False, "loose": True})

        if kind in ("plain", "varied", "inject"):
            if c0 > MAXTS - 500000 and rng.chance(2, 3):
                c0 = rng.choice([0, 1, 1 << 47, rng.below(1 << 47)])
                meta["c0"] = c0
            sc = Scenario(proc, c0)
            f1, b1 = self.rand_delay(rng), self.rand_delay(rng)
            if rng.chance(1, 4):
                b1 = f1                                   # equal delays: the non-LAN error must vanish
            if rng.chance(1, 4):
                b1 = f1 + rng.choice([1, -1, 2, 3]) if f1 > 3 else f1 + 1   # asymmetry of one or two ms
            h = rng.choice(SMALL + [65534, 65535]) if rng.chance(2, 3) else rng.range(0, 65535)
            f2 = b2 = None
            if kind != "plain":
                f2, b2 = self.rand_delay(rng), self.rand_delay(rng)
            t0 = rng.choice([0, 0, 1, 17, 1000])
            info = sc.plain("a", t0, f1, b1, h, f2, b2, rep=h, plain_cfg=True)
            meta["honest"] = True
            if kind == "inject":
                # unrelated traffic at every step of the exchange: before the request arrives, while the
                # response travels, at the very instant a response is handed over, between the exchanges
                seqs = [0, 1]
                marks = [t0, info["ta1"], info["tr1"], info["ta2"], info["tr2"]]
                for _ in range(rng.range(1, 4)):
                    m = rng.choice(marks)
                    t = max(t0, m + rng.choice([-1, 0, 0, 1])) if rng.chance(3, 4) else rng.range(t0, max(t0, info["tr2"]))
                    sc.events.append((t, ("inject_master", self.injections(rng, seqs))))
            return finish(sc)

        if kind == "dishonest":
            # the outstation reports a processing delay that is not the real one
            proc = "nonlan"; meta["proc"] = proc
            if c0 > MAXTS - 500000:
                c0 = rng.below(1 << 47); meta["c0"] = c0
            sc = Scenario(proc, c0)
            f1, b1 = self.rand_delay(rng), self.rand_delay(rng)
            h = rng.choice(SMALL)
            rtt = f1 + h + b1
            rep = rng.choice([rtt + 1, rtt + 1, rtt + 2, 65535, rtt, max(0, rtt - 1), rng.range(0, 65535)])
            rep = min(rep, 65535)
            sc.plain("a", 0, f1, b1, h, rep=rep, plain_cfg=True)
            return finish(sc, {"honest": rep == h, "must_fail": {"a": "reported delay exceeds the round trip"} if rep > rtt else {}})

        if kind == "saturated":
            # real processing delay beyond what g52v2 (u16 ms) can say: the report saturates
            proc = "nonlan"; meta["proc"] = proc
            if c0 > MAXTS - 500000:
                c0 = rng.below(1 << 47); meta["c0"] = c0
            sc = Scenario(proc, c0)
            f1, b1 = rng.choice(SMALL), rng.choice(SMALL)
            h = rng.choice([65536, 65537, 70000, rng.range(65536, 140000)])
            sc.plain("a", 0, f1, b1, h, rep=h, plain_cfg=True)
            return finish(sc, {"honest": False, "saturated": True})

        if kind == "need":
            need = rng.choice(["stuck", "stuck", "clear"])
            if c0 > MAXTS - 500000:
                c0 = rng.below(1 << 47); meta["c0"] = c0
            sc = Scenario(proc, c0, need=need)
            f1, b1 = rng.choice(SMALL), rng.choice(SMALL)
            sc.plain("a", 0, f1, b1, 0, plain_cfg=True)
            return finish(sc, {"honest": True, "must_fail": {"a": "NEED_TIME still set"} if need == "stuck" else {}})

        if kind == "tamper":
            if c0 > MAXTS - 500000:
                c0 = rng.below(1 << 47); meta["c0"] = c0
            sc = Scenario(proc, c0, tmo=rng.choice([5003, TMO_BIG]))
            f1, b1 = rng.choice(SMALL), rng.choice(SMALL)
            info = sc.plain("a", 0, f1, b1, 0)
            which = 1 if proc == "direct" else rng.choice([1, 2])
            t_tamper = 0
            if which == 2:
                t_tamper = info["second_back"]
                if t_tamper is None:
                    which, t_tamper = 1, 0
            first_is_measure = (proc == "nonlan" and which == 1)
            what = rng.choice(["objs", "objs", "objs", "iin-need", "iin2", "fin", "fir", "seq"])
            reason = None
            if what == "objs":
                if first_is_measure:
                    blob = rng.choice(["-", "340207010500", "340207020500" + "0600", "340107010500", "3402070105",
                                       "3402070105000000", "3201070100000000ffff", "ffff0701", "34020801000500",
                                       "34020801000500" + "00"])
                    good = blob in ("340207010500", "34020801000500")
                    reason = None if good else "unexpected objects"
                    if good:
                        # a well-formed report of 5 ms: accepted when it does not exceed the round trip
                        reason = "reported delay exceeds the round trip" if 5 > info["tr1"] else None
                else:
                    blob = rng.choice(["340207010500", "3201070100000000ffff", "00", "340207010000", "ffff0701"])
                    reason = "unexpected objects"
                op = ("tamper", "objs", blob)
            elif what == "iin-need":
                op = ("tamper", "iin", "1000")
                final = (proc == "direct") or which == 2
                reason = "NEED_TIME still set" if final else None
            elif what == "iin2":
                op = ("tamper", "iin", rng.choice(["0001", "0002", "0004"]))
                reason = "outstation rejected the request"
            elif what == "fin":
                op = ("tamper", "ctl", "40"); reason = "response without FIN"
            elif what == "fir":
                op = ("tamper", "ctl", "80"); reason = "response without FIR"
            else:
                op = ("tamper", "ctl", "%02x" % rng.range(1, 15)); reason = "response with a foreign sequence number"
            sc.events.append((t_tamper, op))
            if what == "seq":
                sc.end = max(sc.end, sc.tmo + info["tr1"] + 1)
            exp = {"a": "any"}
            sc.expect = exp
            return finish(sc, {"honest": True, "must_fail": {"a": reason} if reason else {}, "tamper": [which, list(op)],
                               "bound_free": first_is_measure and what == "objs"})

        if kind == "drop":
            if c0 > MAXTS - 500000:
                c0 = rng.below(1 << 47); meta["c0"] = c0
            sc = Scenario(proc, c0, tmo=rng.choice([1000, 5003, 70001]))
            f1, b1 = rng.choice(SMALL), rng.choice(SMALL)
            info = sc.plain("a", 0, f1, b1, 0)
            which = 1 if proc == "direct" else rng.choice([1, 2])
            direction = rng.choice(["fwd", "back"])
            t = info["second_back" if direction == "back" else "second_fwd"] if which == 2 else None
            if t is None:
                sc.events.insert(0, (0, ("drop", direction)))
            else:
                sc.events.append((t, ("drop", direction)))
            sc.expect = {"a": "err timeout"}
            sc.end = sc.tmo + info["tr2"] + 5
            return finish(sc, {"honest": True, "must_fail": {"a": "a message was lost"}})

        if kind == "dup":
            if c0 > MAXTS - 500000:
                c0 = rng.below(1 << 47); meta["c0"] = c0
            sc = Scenario(proc, c0)
            f1, b1 = rng.choice(SMALL), rng.choice(SMALL)
            h = rng.choice([0, 0, 3])
            info = sc.plain("a", 0, f1, b1, h, rep=h)
            direction = rng.choice(["fwd", "back"])
            extra = rng.choice([0, 1, 2, 5, 40, 700])
            which = 1 if proc == "direct" else rng.choice([1, 2])
            t = info["second_back" if direction == "back" else "second_fwd"] if which == 2 else None
            if t is None:
                sc.events.insert(0, (0, ("dup", direction, extra)))
            else:
                sc.events.append((t, ("dup", direction, extra)))
            sc.end += extra + 5
            sc.expect = {"a": "any"}
            return finish(sc, {"honest": True, "dup": True})

        if kind == "overflow":
            # the master's clock is close to the end of the 48-bit range
            f1, b1 = rng.choice(SMALL + [65535, 70000]), rng.choice(SMALL + [65535, 70000])
            h = rng.choice([0, 0, 5])
            total = 2 * f1 + 2 * (b1 + h)
            margin = rng.choice([0, 1, 2, f1, f1 + 1, f1 + b1 + h, f1 + b1 + h - 1, f1 + b1 + h + 1, total, total + 1,
                                 (f1 + b1) // 2, (f1 + b1) // 2 + 1, rng.range(0, total + 2)])
            if rng.chance(2, 3) or force is not None:
                # the boundaries of each procedure: the last schedule that still fits, the first that does not
                tr1 = f1 + b1 + h
                pick = (lambda l: l[force[1] % len(l)]) if force is not None else rng.choice
                if proc == "lan":
                    edge = b1 + h + f1                       # written = c0 + (arrival of WRITE - arrival of RECORD)
                    margin = edge + pick([0, -1, 1, -2])
                elif proc == "nonlan":
                    prop = (f1 + b1) // 2
                    margin = pick([tr1 + prop, tr1 + prop - 1, tr1 + prop + 1, tr1, tr1 - 1, tr1 + prop // 2])
                else:
                    margin = pick([0, 0, 1, -1])
            c0 = MAXTS - margin if margin >= 0 else MAXTS
            if margin < 0:
                # the master clock passes 2^48-1 before the task even starts: start it late enough
                c0 = MAXTS
            meta["c0"] = c0
            sc = Scenario(proc, c0)
            sc.plain("a", 0 if margin >= 0 else -margin, f1, b1, h, rep=h, plain_cfg=True)
            r = sc.meta["syncs"]["a"]["truth"]
            must = {}
            if r[0] == "err" and r[1] in ("overflow", "iin2", "nosystime"):
                must = {"a": "the time would not fit 48 bits"}
            return finish(sc, {"honest": True, "must_fail": must})

        if kind == "noclock":
            if c0 > MAXTS - 500000:
                c0 = rng.below(1 << 47); meta["c0"] = c0
            sc = Scenario(proc, c0)
            f1, b1 = rng.choice(SMALL), rng.choice(SMALL)
            info = sc.plain("a", 0, f1, b1, 0)
            when = rng.choice(["start", "mid"])
            if when == "start" or info["tr1"] < 1:
                sc.events.insert(0, (0, ("mclock", "off")))
                sc.expect = {"a": "err nosystime"}
                must = {"a": "the master has no clock"}
            else:
                sc.events.append((rng.range(0, info["tr1"] - 1) if info["tr1"] > 1 else 0, ("mclock", "off")))
                # after the task has started only the non-LAN procedure samples the clock again
                sc.expect = {"a": "err nosystime" if proc == "nonlan" else "ok"}
                must = {"a": "the master has no clock"} if proc == "nonlan" else {}
            return finish(sc, {"honest": True, "must_fail": must})

        if kind == "multi":
            # several requests, some issued while an earlier one is still running (queued by the master)
            if c0 > MAXTS - 5000000:
                c0 = rng.below(1 << 47); meta["c0"] = c0
            sc = Scenario(proc, c0)
            n = rng.range(2, 4)
            t = 0
            for k in range(n):
                tok = "abcd"[k]
                f1, b1 = rng.choice(SMALL), rng.choice(SMALL)
                h = rng.choice([0, 2])
                ev = [(t, ("fwd", f1)), (t, ("back", b1)), (t, ("hold", h)), (t, ("proc", h)), (t, ("sync", tok))]
                sc.events += ev
                sc.expect[tok] = "any"
                t += rng.choice([0, 0, 1, f1, 2 * (f1 + b1 + h) + 1, 3000])
            sc.end = t + 20000
            return finish(sc, {"honest": False, "loose": True})

        if kind == "timeout-edge":
            if c0 > MAXTS - 500000:
                c0 = rng.below(1 << 47); meta["c0"] = c0
            f1, b1 = rng.choice(SMALL + [2000]), rng.choice(SMALL + [2000])
            h = rng.choice([0, 1, 5])
            rtt = f1 + b1 + h
            tmo = max(1, rtt + rng.choice([-1, 1, 1, 2]))
            sc = Scenario(proc, c0, tmo=tmo)
            sc.plain("a", 0, f1, b1, h, rep=h, plain_cfg=True)
            r = sc.meta["syncs"]["a"]["truth"]
            return finish(sc, {"honest": True, "must_fail": {"a": "no response within the timeout"} if r[1] == "timeout" else {}})

        # late: the response to the first request arrives after the timeout, while a second
        # synchronisation is already running; it must not be taken for the answer to the second one
        if c0 > MAXTS - 5000000:
            c0 = rng.below(1 << 47); meta["c0"] = c0
        tmo = 1000
        sc = Scenario(proc, c0, tmo=tmo)
        slow = rng.choice([1100, 1500, 2500])
        sc.events += [(0, ("fwd", 3)), (0, ("back", slow)), (0, ("sync", "a")),
                      (4, ("back", rng.choice([5, 50]))), (tmo + rng.choice([1, 50]), ("sync", "b"))]
        sc.expect = {"a": "err timeout", "b": "any"}
        sc.end = 9000
        return finish(sc, {"honest": False, "loose": True, "must_fail": {"a": "no response within the timeout"}})

    def cases(self, rng, tier):
        n = 320 if tier == "quick" else 5200
        cands = [self.one_case(rng, i, tier) for i in range(n)]
        # deterministic: every boundary of the 48-bit range for every procedure (the last schedule that still fits, the
        # first that does not) - seeded change C18_c was caught by chance only
        k = n
        for proc in PROCS:
            for edge in range(6):
                for rep in range(2):
                    cands.append(self.one_case(rng, k, tier, force=(proc, edge)))
                    k += 1
        # drop the scripts in which a task would be offered two stimuli at the same instant (the model
        # says so): tokio's select! then picks at random and no single trace is "the" behaviour
        build_model()
        work = os.path.join(WORK, self.id)
        os.makedirs(work, exist_ok=True)
        ap = os.path.join(work, "candidates.txt")
        open(ap, "w").write("\n".join(c.script for c in cands) + "\n")
        p = subprocess.run(["bash", "-c", "ulimit -s unlimited; exec %s %s" % (os.path.join(OCAML, "driver"), ap)],
                           stdout=subprocess.PIPE, stderr=subprocess.PIPE, text=True)
        if p.returncode != 0:
            raise BuildError("model run over the candidate scripts failed: " + p.stderr[-1000:])
        traces = parse_traces(p.stdout)
        out = [c for c in cands if "ambiguous" not in traces.get(c.sid, [])]
        self.filtered_ambiguous = len(cands) - len(out)
        return out

    # ------------------------------------------------------------------------------------------
    def parse(self, impl):
        ev = []
        for l in impl:
            t = l.split()
            if not t:
                continue
            if t[0] in ("m2o", "o2m") and len(t) == 4:
                ev.append({"k": t[0], "send": int(t[1]), "arrive": None if t[2] == "drop" else int(t[2]), "hex": t[3]})
            elif t[0] == "written":
                ev.append({"k": "written", "t": int(t[1]), "ts": int(t[2])})
            elif t[0] == "res":
                ev.append({"k": "res", "tok": t[1], "ok": t[2] == "ok", "kind": " ".join(t[3:])})
            elif t[0] == "inj":
                ev.append({"k": "inj", "t": int(t[1]), "hex": t[2]})
            elif t[0] == "clock":
                ev.append({"k": "clock", "t": int(t[1]), "c": None if t[2] == "none" else int(t[2])})
            else:
                ev.append({"k": "other", "line": l})
        return ev

    def oracle(self, case, impl):
        m = case.meta
        fails = []
        for l in impl:
            if l.startswith("panic") or l.startswith("harness-died") or l == "missing" or l.startswith("unimplemented"):
                fails.append(("no-panic", "engine or task died: " + l[:200]))
        if fails or "proc" not in m:
            return fails
        proc, c0 = m["proc"], m["c0"]
        ev = self.parse(impl)
        # the master's clock as the engine reports it at the end must be c0 + t
        for e in ev:
            if e["k"] == "clock" and e["c"] is not None and e["c"] != c0 + e["t"]:
                fails.append(("clock", "engine clock %d at %d, expected %d" % (e["c"], e["t"], c0 + e["t"])))
        seg = []
        hist = []
        seen = {}
        for e in ev:
            hist.append(e)
            if e["k"] != "res":
                seg.append(e)
                continue
            tok = e["tok"]
            seen[tok] = e
            must = m.get("must_fail", {}).get(tok)
            exp = m.get("expect", {}).get(tok, "any")
            if e["ok"]:
                if must:
                    fails.append(("must-fail", "synchronisation reported successful although %s (token %s)" % (must, tok)))
                if exp.startswith("err"):
                    fails.append(("must-fail", "synchronisation reported successful, the scripted history makes it fail with '%s'" % exp))
                fails += self.check_success(m, proc, c0, tok, seg, hist if m.get("loose") else seg)
            seg = []
        for tok in m.get("expect", {}):
            if tok not in seen:
                fails.append(("one-outcome", "no outcome reported for synchronisation %s" % tok))
        return fails

    def check_success(self, m, proc, c0, tok, seg, hist):
        """a synchronisation was reported successful: `seg` = everything observed since the previous outcome;
        `hist` = the part of the history whose requests may have reached the outstation before the time was
        written (with stale duplicates in play that is everything so far)"""
        fails = []
        # a fragment injected at the master that carries the sequence number of a pending request is not
        # "unrelated traffic": the master cannot tell it from the outstation's answer (4-bit sequence, no
        # authentication), so nothing is claimed about an exchange that it may have completed
        pend = set(e["hex"][1] for e in seg if e["k"] == "m2o" and e["hex"][2:4] in ("02", "17", "18"))
        if any(e["k"] == "inj" and e["hex"][2:4] == "81" and e["hex"][1] in pend for e in seg):
            return []
        written = [e for e in seg if e["k"] == "written"]
        if not written:
            return [("written", "success reported but the outstation application was never handed a time (token %s)" % tok)]
        w = written[-1]
        if not (0 <= w["ts"] <= MAXTS):
            fails.append(("range", "written time %d outside 48 bits" % w["ts"]))
        err = (c0 + w["t"]) - w["ts"]        # master clock at the instant of writing minus written time
        reqs = [e for e in seg if e["k"] == "m2o" and e["arrive"] is not None]
        allreqs = [e for e in hist if e["k"] == "m2o" and e["arrive"] is not None and e["arrive"] <= w["t"]]
        fn = lambda e: e["hex"][2:4]
        fwd = lambda e: e["arrive"] - e["send"]
        # the response that completed the task must not have indicated NEED_TIME, must be FIR|FIN, no objects
        resp = [e for e in seg if e["k"] == "o2m" and e["arrive"] is not None and e["hex"][2:4] == "81"]
        wreq = [e for e in reqs if fn(e) == "02"]
        if wreq:
            # the response the master acted on: the first one to reach it that answers the last WRITE
            resp = [e for e in resp if e["hex"][1] == wreq[-1]["hex"][1] and e["arrive"] >= wreq[-1]["arrive"]]
        if resp and wreq:
            last = min(enumerate(resp), key=lambda x: (x[1]["arrive"], x[0]))[1]["hex"]
            if True:
                if int(last[4:6], 16) & 0x10:
                    fails.append(("must-fail", "success reported although the final response still indicates NEED_TIME"))
                if len(last) > 8:
                    fails.append(("must-fail", "success reported although the final response carries objects"))
        if proc == "lan":
            rec = [fwd(e) for e in allreqs if fn(e) == "18"]
            if not rec:
                return fails + [("written", "LAN success without RECORD_CURRENT_TIME")]
            bound = max(rec)
            if abs(err) > bound:
                fails.append(("lan-error", "written %d at instant %d, master clock %d: error %d > forward delay %d"
                              % (w["ts"], w["t"], c0 + w["t"], err, bound)))
        elif proc == "direct":
            wr = [fwd(e) for e in allreqs if fn(e) == "02"]
            bound = max(wr) if wr else 0
            if abs(err) > bound:
                fails.append(("direct-error", "written %d at instant %d, master clock %d: error %d > forward delay %d"
                              % (w["ts"], w["t"], c0 + w["t"], err, bound)))
        else:
            if not m.get("honest") or m.get("bound_free"):
                return fails
            info = m.get("syncs", {}).get(tok)
            if not info:
                return fails
            hold = info["h"]
            f1s = [fwd(e) for e in reqs if fn(e) == "17"]
            f2s = [fwd(e) for e in reqs if fn(e) == "02"]
            bs = [e["arrive"] - e["send"] - hold for e in seg if e["k"] == "o2m" and e["arrive"] is not None
                  and e["hex"][8:12] == "3402"]
            if not (f1s and f2s and bs):
                return fails + [("written", "non-LAN success without the expected exchange")]
            bound = max((abs(b - f1) + 1) // 2 + abs(f2 - f1) for f1 in f1s for f2 in f2s for b in bs)
            if abs(err) > bound:
                fails.append(("nonlan-error", "written %d at instant %d, master clock %d: error %d > bound %d "
                              "(forward %s / %s, backward %s, honest processing delay %d)"
                              % (w["ts"], w["t"], c0 + w["t"], err, bound, f1s, f2s, bs, hold)))
            if len(f1s) == 1 and len(f2s) == 1 and len(bs) == 1 and f1s[0] == f2s[0] == bs[0] and err != 0:
                fails.append(("nonlan-error", "equal delays %d but error %d" % (f1s[0], err)))
        return fails

    def nontrivial(self, case, impl):
        return any(l.startswith("res ") for l in impl)

    def finding_signature(self, case, clause, desc):
        return "%s/%s/%s" % (clause, case.meta.get("kind"), case.meta.get("proc"))


PROP = C18()
