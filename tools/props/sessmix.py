"""Session-level halves of the properties whose database-level halves live in c03/c13/c11.py:
the same Prop object gains cases for the engine `outstation` and the matching oracles."""
import ost
from ost import *


def attach(prop, cases_fn, oracle_fn, n_quick, n_thorough, extra_targets=()):
    """adds session cases (engine outstation) to a database-level Prop instance"""
    helper = ost.OutstationProp()
    helper.id = prop.id
    db_cases, db_oracle, db_nontrivial, db_sig = prop.cases, prop.oracle, prop.nontrivial, prop.finding_signature

    def is_session(case):
        return case.script.split("\n", 1)[0].split()[2] == "outstation"

    def cases(rng, tier):
        out = db_cases(rng, tier)
        out += cases_fn(helper, rng, n_quick if tier == "quick" else n_thorough)
        return out

    def oracle(case, impl):
        if is_session(case):
            return helper.common_fail(impl) + oracle_fn(helper, case, impl)
        return db_oracle(case, impl)

    def nontrivial(case, impl):
        if is_session(case):
            return any(" tx " in l for l in impl)
        return db_nontrivial(case, impl)

    def model_script(case, impl):
        if is_session(case):
            return helper.model_script(case, impl)
        return case.script

    def canon(lines, side):
        if lines and (lines[0].split()[:1] or ["x"])[0].isdigit():
            return helper.canon(lines, side)
        return lines

    def sig(case, clause, desc):
        if is_session(case):
            return "session/" + clause
        return db_sig(case, clause, desc)

    prop.cases, prop.oracle, prop.nontrivial = cases, oracle, nontrivial
    prop.model_script, prop.canon, prop.finding_signature = model_script, canon, sig
    # second model pass (composed model, engine `ofull`): the helper skips the db-engine scripts itself
    prop.extra_model_script, prop.extra_canon, prop.extra_what = helper.extra_model_script, helper.extra_canon, helper.extra_what
    prop.proof_targets = list(prop.proof_targets) + list(extra_targets)
    prop.modelled += "; session level: Outstation/Session.v (see C04)"
    prop.rule += ("; session level (engine outstation): event histories with polls, unsolicited series, right/wrong/late "
                  "confirms, aborting requests, DISABLE/ENABLE_UNSOLICITED, disconnects, followed by a draining epilogue")
    return prop


# ---- C03 ------------------------------------------------------------------------------------------

def c03_cases(h, rng, n):
    out = []
    for i in range(n):
        cfg = h.base_cfg(rng)
        cfg["evbuf"] = 50
        cfg["soltx"] = rng.choice([249, 2048])
        cfg["confirm_ms"] = 1000
        cfg["retry_delay_ms"] = 500
        ops = [("add", "binary", 0, 1), ("add", "binary", 1, 2), ("add", "binary", 2, 3)]
        vals = [0, 0, 0]
        seq = rng.below(16)
        nev = 0
        t = 100
        if cfg["unsol"]:
            ops.append(("rx", MASTER, "none", hexs(frag(0, FN["confirm"], uns=True))))
            if rng.chance(2, 3):
                ops.append(("rx", MASTER, "none", hexs(frag(seq, FN["enable"], read_classes(rng.choice([(1, 2, 3), (1,), (2, 3)]))))))
                seq = (seq + 1) & 15
        useq = 1
        for _ in range(rng.range(3, 14)):
            r = rng.below(100)
            if r < 35 and nev < 40:
                k = rng.below(3); vals[k] ^= 1; t += rng.below(40)
                ops.append(("update", "binary", k, str(vals[k]), 1, t)); nev += 1
            elif r < 55:
                req = frag(seq, FN["read"], read_classes(rng.choice([(1, 2, 3), (1,), (2,), (3,), (1, 2, 3, 0)])))
                ops.append(("rx", MASTER, "none", hexs(req)))
                a = rng.below(7)
                if a <= 1: ops.append(("rx", MASTER, "none", hexs(frag(seq, FN["confirm"]))))
                elif a == 2: ops.append(("rx", MASTER, "none", hexs(frag((seq + 3) & 15, FN["confirm"]))))
                elif a == 3: ops.append(("sleep", 1000 + rng.choice([-1, 0, 1])))
                elif a == 4: ops.append(("rx", MASTER, "none", hexs(frag((seq + 1) & 15, FN["delay"]))))
                elif a == 5: ops.append(("disconnect",))
                seq = (seq + 1) & 15
            elif r < 70:
                q = useq if rng.chance(2, 3) else rng.below(16)
                ops.append(("rx", MASTER, "none", hexs(frag(q, FN["confirm"], uns=True))))
                useq = (useq + 1) & 15
            elif r < 80:
                ops.append(("sleep", rng.choice([1, 499, 500, 501, 999, 1000, 1001, 3000])))
            elif r < 88:
                which = rng.choice(["enable", "disable"])
                ops.append(("rx", MASTER, "none", hexs(frag(seq, FN[which], read_classes(rng.choice([(1, 2, 3), (1,), (2,)]))))))
                seq = (seq + 1) & 15
            elif r < 94:
                ops.append(("disconnect",))
            else:
                ops.append(("rx", MASTER, "none", hexs(frag(seq, FN["confirm"]))))
        # epilogue: stop unsolicited reporting, let every wait expire, then drain by polls and confirms
        ops.append(("sleep", 20000))
        ops.append(("rx", MASTER, "none", hexs(frag(seq, FN["disable"], read_classes((1, 2, 3)))))); seq = (seq + 1) & 15
        ops.append(("sleep", 20000))
        for _ in range(4):
            ops.append(("rx", MASTER, "none", hexs(frag(seq, FN["read"], read_classes((1, 2, 3))))))
            ops.append(("rx", MASTER, "none", hexs(frag(seq, FN["confirm"]))))
            seq = (seq + 1) & 15
        sid = "c03_s_%d" % i
        out.append(Case(sid, script_text(sid, "outstation", cfg, ops), {"kind": "session", "cfg": cfg, "events": nev}))
    # event series that need several fragments: the confirm of fragment k must release fragment k only
    for i in range(max(4, n // 6)):
        cfg = {"unsol": 0, "soltx": 249, "evbuf": 200, "confirm_ms": 1000, "sel": 0, "op": 0, "decode": rng.below(4)}
        ops = [("add", "binary", 0, 1), ("add", "binary", 1, 2)]
        nev = rng.range(90, 180)
        vals = [0, 0]
        for k in range(nev):
            j = k & 1; vals[j] ^= 1
            ops.append(("update", "binary", j, str(vals[j]), 1, 1000 + k))
        seq = rng.below(16)
        for rnd in range(rng.range(1, 3)):
            ops.append(("rx", MASTER, "none", hexs(frag(seq, FN["read"], read_classes((1, 2, 3))))))
            ops.append(("rx", MASTER, "none", hexs(frag(seq, FN["confirm"]))))
            end = rng.below(4)
            if end == 0: ops.append(("sleep", 1001))
            elif end == 1: ops.append(("rx", MASTER, "none", hexs(frag((seq + 5) & 15, FN["delay"]))))
            elif end == 2: ops.append(("disconnect",))
            else: ops.append(("rx", MASTER, "none", hexs(frag((seq + 1) & 15, FN["confirm"]))))
            seq = (seq + 2) & 15
        ops.append(("sleep", 3000))
        for _ in range(8):
            ops.append(("rx", MASTER, "none", hexs(frag(seq, FN["read"], read_classes((1, 2, 3))))))
            for k in range(4):
                ops.append(("rx", MASTER, "none", hexs(frag((seq + k) & 15, FN["confirm"]))))
            seq = (seq + 4) & 15
        sid = "c03_m_%d" % i
        out.append(Case(sid, script_text(sid, "outstation", cfg, ops), {"kind": "session-series", "cfg": cfg, "events": nev}))
    return out


def _events_in(body_hex):
    import dbcommon as D
    try:
        ev, _ = D.decode_response(bytes.fromhex(body_hex) if body_hex != "-" else b"")
        return len(ev)
    except Exception:
        return None


def c03_oracle(h, case, impl):
    fails = []
    cleared = []
    awaiting = 0          # events carried by the fragment that awaits confirmation
    confirmed_count = None
    counting = None
    confirmed_pending = False      # a confirm was accepted and the release belonging to it may follow
    carried_unconfirmed = False    # a response with events is outstanding or ended unconfirmed without reset
    for op, t, lines in split_steps(impl):
        for l in lines:
            tk = l.split()
            if len(tk) < 3:
                if len(tk) == 2 and tk[1].startswith("session-end"):
                    pass
                continue
            if tk[1] == ">" and tk[2] == "write":
                n = _events_in(tk[5]) if len(tk) > 5 else 0
                awaiting = n if n is not None else awaiting
            if tk[1] == ">" and tk[2] == "unsol" and tk[3] != "0":
                n = _events_in(tk[4]) if len(tk) > 4 else 0
                awaiting = n if n is not None else awaiting
            if tk[1] == "db" and tk[2] == "clear_written":
                counting = 0
            if tk[1] == ">" and tk[2] == "cb" and tk[3] == "event_cleared" and counting is not None:
                counting += 1
            if tk[1] == ">" and tk[2] == "cb" and tk[3] == "end_confirm" and counting is not None:
                if confirmed_count is not None and counting != confirmed_count:
                    fails.append(("released-more-than-confirmed", "a confirm released %d events but the confirmed fragment carried %d" % (counting, confirmed_count)))
                counting = None; confirmed_count = None
            if tk[1] == "info" and tk[2] in ("sol_confirmed", "unsol_confirmed"):
                confirmed_count = awaiting; awaiting = 0
                confirmed_pending = True
            elif tk[1] == "db" and tk[2] == "clear_written":
                if not confirmed_pending:
                    fails.append(("released-without-confirm", "events were released although no matching confirm had just been accepted"))
                confirmed_pending = False
                carried_unconfirmed = False
            elif tk[1] == ">" and tk[2] == "cb" and tk[3] == "event_cleared":
                if tk[4] in cleared:
                    fails.append(("released-twice", "event %s released twice" % tk[4]))
                cleared.append(tk[4])
            elif tk[1] == ">" and tk[2] == "write" and tk[4] == "1":
                carried_unconfirmed = True
            elif tk[1] == ">" and tk[2] == "unsol" and tk[3] != "0":
                carried_unconfirmed = True
            elif tk[1] == "db" and tk[2] in ("reset", "write_unsol", "deferred_select"):
                carried_unconfirmed = False
            elif tk[1] == "db" and tk[2] == "select":
                if carried_unconfirmed and not any(" info enter_sol_wait" in x for x in lines[:lines.index(l)]):
                    fails.append(("not-offered-again", "a new READ selects events while those of an unconfirmed response are still marked as written"))
    want = case.meta.get("events", 0)
    if len(set(cleared)) != want and not any(" panic" in l for l in impl):
        fails.append(("event-lost", "%d events were recorded but %d were released after the draining epilogue" % (want, len(set(cleared)))))
    return fails


# ---- C13 ------------------------------------------------------------------------------------------

def c13_cases(h, rng, n):
    out = h.cases_session(rng, n // 2, focus=None, prefix="i")
    for i in range(n - n // 2):
        cfg = h.base_cfg(rng)
        cfg["evbuf"] = rng.choice([1, 2, 5])
        ops = [("add", "binary", 0, 1), ("add", "analog", 1, 2), ("add", "counter", 2, 3)]
        seq = rng.below(16)
        t = 50
        for _ in range(rng.range(4, 12)):
            r = rng.below(100)
            if r < 30:
                typ, idx = rng.choice([("binary", 0), ("analog", 1), ("counter", 2)])
                t += 7
                ops.append(("update", typ, idx, str(t & 1) if typ == "binary" else str(t), 1, t))
            elif r < 50:
                ops.append(("rx", MASTER, "none", hexs(frag(seq, FN["read"], read_classes(rng.choice([(1, 2, 3), (1,), (0,)]))))))
                if rng.chance(1, 2): ops.append(("rx", MASTER, "none", hexs(frag(seq, FN["confirm"]))))
                seq = (seq + 1) & 15
            elif r < 62:
                ops.append(("rx", MASTER, rng.choice(["opt", "mand", "notreq"]), hexs(frag(seq, rng.choice([FN["record"], FN["write"], FN["read"]]), b""))))
                seq = (seq + 1) & 15
            elif r < 74:
                ops.append(("rx", MASTER, "none", hexs(frag(seq, FN["write"], rng.choice([write_iin(7, 0), write_iin(7, 1), write_iin(4, 0)])))))
                seq = (seq + 1) & 15
            elif r < 82:
                ops.append(("appiin", rng.below(16)))
            elif r < 90:
                ops.append(("rx", MASTER, "none", hexs(frag(seq, FN["delay"]))))
                seq = (seq + 1) & 15
            elif r < 95:
                ops.append(("disconnect",))
            else:
                ops.append(("sleep", rng.choice([1, 1000, 6000])))
        sid = "c13_s_%d" % i
        out.append(Case(sid, script_text(sid, "outstation", cfg, ops), {"kind": "session", "cfg": cfg}))
    # a response carrying events is abandoned in every possible way (cancelled by DISABLE_UNSOLICITED, confirm
    # timeout without retry, new request, disconnect, wrong confirm then timeout); the next responses must show
    # the class bits of those events again (seeded change C13_c: no database reset on one of the routes)
    for i in range(max(6, n // 5)):
        unsol = rng.chance(2, 3)
        cfg = {"unsol": 1 if unsol else 0, "soltx": 300, "confirm_ms": 1000, "retries": rng.choice(["0", "0", "1", "none"]),
               "retry_delay_ms": rng.choice([500, 5000]), "sel": 0, "op": 0, "decode": rng.below(4), "evbuf": 5}
        ops = [("add", "binary", 0, 1), ("add", "analog", 1, 2), ("add", "counter", 2, 3)]
        seq = rng.below(16)
        if unsol:
            ops.append(("rx", MASTER, "none", hexs(frag(0, FN["confirm"], uns=True))))
            ops.append(("rx", MASTER, "none", hexs(frag(seq, FN["enable"], read_classes(rng.choice([(1, 2, 3), (1,), (1, 2)])))))); seq = (seq + 1) & 15
        t = 100
        for _ in range(rng.range(1, 3)):
            typ, idx = rng.choice([("binary", 0), ("binary", 0), ("analog", 1), ("counter", 2)])
            t += 7
            ops.append(("update", typ, idx, str(t & 1) if typ == "binary" else str(t), 1, t))
        if not unsol:
            ops.append(("rx", MASTER, "none", hexs(frag(seq, FN["read"], read_classes((1, 2, 3)))))); seq = (seq + 1) & 15
        how = rng.choice(["disable", "disable", "disable-some", "timeout", "request", "disconnect", "wrong-confirm"])
        if how == "disable":
            ops.append(("rx", MASTER, "none", hexs(frag(seq, FN["disable"], read_classes((1, 2, 3)))))); seq = (seq + 1) & 15
        elif how == "disable-some":
            ops.append(("rx", MASTER, "none", hexs(frag(seq, FN["disable"], read_classes(rng.choice([(1,), (2, 3)])))))); seq = (seq + 1) & 15
        elif how == "timeout":
            ops.append(("sleep", 1001))
        elif how == "request":
            ops.append(("rx", MASTER, "none", hexs(frag(seq, FN["delay"])))); seq = (seq + 1) & 15
        elif how == "disconnect":
            ops.append(("disconnect",))
        else:
            ops.append(("rx", MASTER, "none", hexs(frag(rng.below(16), FN["confirm"], uns=rng.chance(1, 2)))))
            ops.append(("sleep", 1001))
        for _ in range(rng.range(1, 3)):
            what = rng.below(3)
            if what == 0:
                ops.append(("rx", MASTER, "none", hexs(frag(seq, FN["delay"]))))
            elif what == 1:
                ops.append(("rx", MASTER, "none", hexs(frag(seq, FN["read"], read_classes((0,))))))
            else:
                ops.append(("rx", MASTER, "none", hexs(frag(seq, FN["read"], read_classes((1, 2, 3))))))
            seq = (seq + 1) & 15
        sid = "c13_a_%d" % i
        out.append(Case(sid, script_text(sid, "outstation", cfg, ops), {"kind": "session-abandon", "cfg": cfg}))
    return out


def c13_oracle(h, case, impl):
    """IIN octets of every response against a ledger.  Broadcast bit: a confirm-mandatory indication must persist
    until a CONFIRM arrives for a response that REPORTED it (same UNS bit and sequence number, transmitted after the
    broadcast); any other confirm - of an unsolicited response sent before the broadcast, or a solicited CONFIRM that
    confirms nothing - must leave it set (finding F25, both variants)"""
    fails = []
    cfg = case.meta.get("cfg", {})
    restart = True
    appiin = int(cfg.get("appiin", 0))
    bcast = None          # pending broadcast indication: None / mode
    reported = None       # (uns, seq) of the last response that carried a pending confirm-mandatory indication
    maybe = False         # a CONFIRM matching `reported` arrived outside a confirm wait: the bit may be either
    wrong = None          # a confirm that confirms no report arrived while the indication was pending (diagnosis)
    evinfo = None
    # class bits: events written into a response count as "awaiting confirmation" only while that response
    # really awaits its confirm; once the wait has ended without a confirm (timeout, new request, cancelled by
    # DISABLE_UNSOLICITED, disconnect) the database must have been reset before the next IIN is computed
    carried = False       # a response carrying events was formed and neither confirmed nor reset since
    fresh = False         # ... and it is the response being formed right now (its own IIN is computed next)
    waiting = None        # None / "sol" / "unsol": a confirm wait is in progress
    for op, t, lines in split_steps(impl):
        if op[0] == "appiin":
            appiin = int(op[1])
        if op[0] in ("disconnect", "bounce"):
            reported, maybe = None, False
        cancel = False
        if op[0] == "rx" and op[2] == "none" and waiting == "unsol":
            b1 = bytes.fromhex(op[3]) if op[3] != "-" else b""
            cancel = (len(b1) >= 2 and b1[1] == 21 and any(" > digest " in l and "obj=ok" in l and "rv=ok" in l for l in lines)
                      and any(" tx " in l for l in lines))
        for l in lines:
            tk = l.split()
            if len(tk) == 2 and tk[1].startswith("session-end"):
                waiting = None
            if len(tk) < 3:
                continue
            if tk[1] == ">" and tk[2] == "write" and tk[4] == "1":
                carried, fresh = True, True
            elif tk[1] == ">" and tk[2] == "unsol" and tk[3] != "0":
                carried, fresh = True, True
            elif tk[1] == "db" and tk[2] in ("clear_written", "reset", "write_unsol", "deferred_select"):
                carried, fresh = False, False
            elif tk[1] == "info" and tk[2] == "enter_sol_wait": waiting = "sol"
            elif tk[1] == "info" and tk[2] == "enter_unsol_wait": waiting = "unsol"
            elif tk[1] == "info" and tk[2] in ("sol_confirmed", "sol_timeout", "sol_new_request", "unsol_confirmed"): waiting = None
            elif tk[1] == "info" and tk[2] == "unsol_timeout" and tk[4] == "0": waiting = None
            elif tk[1] == "tx" and cancel and len(tk) > 3 and tk[3][2:4] == "81":
                waiting = None            # the reply to DISABLE_UNSOLICITED: the unsolicited series is cancelled
            elif tk[1] == "db" and tk[2] == "evinfo":
                if carried and not fresh and waiting is None:
                    fails.append(("class-bit-stale", "the IIN of a response is computed while the events of an abandoned response (timed out, aborted, cancelled or cut) still count as awaiting confirmation: the database was not reset"))
                    carried = False
                fresh = False
        if op[0] == "rx" and op[2] == "none" and bcast == "mand":
            b0 = bytes.fromhex(op[3]) if op[3] != "-" else b""
            if len(b0) >= 2 and b0[1] == 0 and not (b0[0] & 0x10) and not any(" info " in l for l in lines):
                if reported == (False, b0[0] & 15):
                    maybe = True
                else:
                    wrong = "stray"
        for l in lines:
            tk = l.split()
            if len(tk) < 3:
                continue
            if tk[1] == ">" and tk[2] == "evinfo":
                evinfo = [x == "1" for x in tk[3:7]]
            elif tk[1] == "info" and tk[2] == "clear_restart_iin":
                restart = False
            elif tk[1] == "info" and tk[2] == "broadcast":
                # recorded before the callback: the mode is the one of this step's rx
                bcast = op[2] if op[0] == "rx" else bcast
                reported, maybe, wrong = None, False, None
            elif tk[1] == "info" and tk[2] in ("sol_confirmed", "unsol_confirmed"):
                who = (tk[2] == "unsol_confirmed", int(tk[3]))
                if bcast == "mand" and reported != who:
                    wrong = "unsol" if who[0] else "sol"
                elif bcast == "mand":
                    bcast, reported, maybe = None, None, False
            elif tk[1] == "tx":
                b = bytes.fromhex(tk[3])
                if len(b) < 4 or evinfo is None:
                    continue
                iin1, iin2 = b[2], b[3]
                if bool(iin1 & 0x80) != restart:
                    fails.append(("restart-bit", "restart indication is %d, expected %d" % (bool(iin1 & 0x80), restart)))
                for k, bit in enumerate((2, 4, 8)):
                    if bool(iin1 & bit) != evinfo[k]:
                        fails.append(("class-bit", "class %d events-available bit is %d but the buffer says %d" % (k + 1, bool(iin1 & bit), evinfo[k])))
                if bool(iin2 & 0x08) != evinfo[3]:
                    fails.append(("overflow-bit", "overflow bit is %d but the buffer says %d" % (bool(iin2 & 8), evinfo[3])))
                if bool(iin1 & 0x01) != (bcast is not None):
                    if bcast == "mand" and maybe:
                        bcast = None                      # confirmed by a matching CONFIRM outside a confirm wait
                    elif bcast == "mand" and wrong == "stray":
                        fails.append(("broadcast-bit-cleared-by-stray-confirm", "a confirm-mandatory broadcast indication was dropped by a solicited CONFIRM that confirmed no response reporting it (received during an unsolicited confirm wait)"))
                        bcast = None
                    elif bcast == "mand" and wrong == "unsol":
                        fails.append(("broadcast-bit-cleared-by-unrelated-confirm", "a confirm-mandatory broadcast indication was dropped, before it was ever reported, by the CONFIRM of an unsolicited response transmitted before the broadcast arrived"))
                        bcast = None
                    else:
                        fails.append(("broadcast-bit", "broadcast indication is %d, expected %d" % (iin1 & 1, bcast is not None)))
                        bcast = None if not (iin1 & 1) else bcast
                maybe = False
                if bcast == "mand":
                    reported = (bool(b[0] & 0x10), b[0] & 15)
                elif bcast is not None:
                    bcast = None
                want = ((appiin & 1) << 4) | ((appiin & 2) << 4) | ((appiin & 4) << 4)
                if (iin1 & 0x70) != want or bool(iin2 & 0x20) != bool(appiin & 8):
                    fails.append(("application-bits", "need-time/local/trouble/config-corrupt bits %#x/%d do not mirror the application (%d)" % (iin1 & 0x70, bool(iin2 & 0x20), appiin)))
                evinfo = None
    return fails


# ---- C11 ------------------------------------------------------------------------------------------

def c11_cases(h, rng, n):
    out = []
    for i in range(n):
        cfg = {"unsol": 0, "soltx": rng.choice([249, 249, 300, 512]), "confirm_ms": 1000, "sel": 0, "op": 0, "decode": rng.below(4)}
        ops = []
        # long: a series of more than 16 fragments, the 4-bit sequence number wraps inside it
        long_series = rng.chance(1, 12)
        npts = 900 if long_series else rng.choice([10, 60, 130, 200])
        if long_series:
            cfg["soltx"] = 249
        for k in range(npts):
            ops.append(("add", "analog" if long_series else rng.choice(["analog", "binary", "counter"]), k * rng.choice([1, 1, 3]), rng.below(4)))
        if rng.chance(1, 2):
            ops.append(("update", "analog", 0, "7", 1, 10))
        seq = rng.below(16)
        slow = rng.chance(1, 4)    # a slow master: every confirm in time, the series as a whole longer than one timeout
        req = frag(seq, FN["read"], read_classes(rng.choice([(0,), (1, 2, 3, 0), (0, 1)])))
        ops.append(("rx", MASTER, "none", hexs(req)))
        s = seq
        for k in range(rng.range(17, 24) if long_series else rng.range(0, 6)):
            a = rng.below(10) if not long_series or k > 16 or rng.chance(1, 12) else 0
            if slow:
                ops.append(("sleep", 600))
            if a < 5 or slow:
                ops.append(("rx", MASTER, "none", hexs(frag(s, FN["confirm"])))); s = (s + 1) & 15
            elif a == 5:
                ops.append(("rx", MASTER, "none", hexs(frag((s + 2) & 15, FN["confirm"]))))
            elif a == 6:
                ops.append(("update", "analog", 0, str(100 + k), 1, 100 + k))
            elif a == 7:
                ops.append(("sleep", 1000 + rng.choice([-1, 0, 1])))
            elif a == 8 and rng.chance(1, 2):
                ops.append(("rx", MASTER, "none", hexs(frag((seq + 5) & 15, FN["delay"]))))
            elif a == 8:
                # the master polls again: same object headers, NEXT sequence number - a new request, not a retransmission
                seq = (seq + 1) & 15
                ops.append(("rx", MASTER, "none", hexs(bytes([ctl(seq)]) + req[1:])))
                s = seq
            else:
                ops.append(("disconnect",))
        sid = "c11_s_%d" % i
        out.append(Case(sid, script_text(sid, "outstation", cfg, ops), {"kind": "session", "cfg": cfg}))
    # READs deferred during an unsolicited confirm wait: the one READ that is finally answered is answered for
    # what IT selected, once (seeded change C11_c: a superseded READ's headers stay selected)
    for i in range(max(6, n // 8)):
        cfg = {"unsol": 1, "soltx": 2048, "confirm_ms": 1000, "retries": rng.choice(["0", "1"]), "retry_delay_ms": 500,
               "sel": 0, "op": 0, "decode": rng.below(4)}
        ops = [("add", "binary", 0, 1), ("add", "analog", 7, 2), ("add", "counter", 3, 0)]
        seq = rng.below(16)
        ops.append(("rx", MASTER, "none", hexs(frag(0, FN["confirm"], uns=True))))
        ops.append(("rx", MASTER, "none", hexs(frag(seq, FN["enable"], read_classes((1, 2, 3)))))); seq = (seq + 1) & 15
        ops.append(("update", "binary", 0, "1", 1, 100))
        pool = [read_classes((0,)), read_classes((1, 2, 3)), read_classes((1,)), bytes([30, 0, 6]), bytes([1, 2, 0, 0, 0]),
                bytes([20, 0, 6]), read_classes((1, 2, 3, 0))]
        for _ in range(rng.range(2, 4)):
            body = rng.choice(pool)
            ops.append(("rx", MASTER, "none", hexs(frag(seq, FN["read"], body))))
            if rng.chance(1, 3):
                ops.append(("rx", MASTER, "none", hexs(frag(seq, FN["read"], body))))
            seq = (seq + 1) & 15
        if rng.chance(1, 2):
            ops.append(("rx", MASTER, "none", hexs(frag(1, FN["confirm"], uns=True))))
        else:
            ops.append(("sleep", 1001))
        ops.append(("rx", MASTER, "none", hexs(frag((seq - 1) & 15, FN["confirm"]))))
        ops.append(("sleep", 2000))
        sid = "c11_d_%d" % i
        out.append(Case(sid, script_text(sid, "outstation", cfg, ops), {"kind": "session-deferred", "cfg": cfg}))
    return out


def c11_oracle(h, case, impl):
    fails = response_sequence_fails(impl)
    reads = {}
    for op, t, lines in split_steps(impl):
        if op[0] == "rx" and op[2] == "none" and int(op[1]) == MASTER:
            rb = bytes.fromhex(op[3]) if op[3] != "-" else b""
            if len(rb) >= 2 and rb[1] == 1 and any(" > digest " in l and "obj=ok" in l and "rv=ok" in l for l in lines):
                reads[rb[0] & 15] = rb
        for (_, _, x) in txs(lines):
            if len(x) >= 4 and x[1] == 129 and (x[0] & 0x80) and (x[0] & 15) in reads:
                allowed = read_allowed_groups(reads[x[0] & 15])
                got = response_groups(x)
                if allowed is not None and got is not None and not got <= allowed:
                    fails.append(("read-answered-with-unselected-objects", "the response to READ %s carries objects of groups %s that this READ did not select"
                                  % (reads[x[0] & 15].hex(), sorted(got - allowed))))
                try:
                    import dbcommon as D
                    ev, st = D.decode_response(x[4:])
                    keys = [(a[0], a[2]) for a in st]
                    if len(keys) != len(set(keys)):
                        fails.append(("object-reported-twice", "a static object appears twice in one response fragment"))
                except Exception:
                    pass
    last_sol_tx = None
    series = None          # (next expected sequence, awaiting confirm of sequence)
    for op, t, lines in split_steps(impl):
        confirmed = None
        last_write = None
        for l in lines:
            tk = l.split()
            if len(tk) < 3:
                if len(tk) == 2 and tk[1].startswith("session-end"):
                    series = None
                continue
            if tk[1] == "info" and tk[2] == "sol_confirmed":
                confirmed = int(tk[3])
            elif tk[1] == "info" and tk[2] == "sol_timeout":
                if last_sol_tx is not None and int(tk[0]) - last_sol_tx < int(case.meta.get("cfg", {}).get("confirm_ms", 5000)):
                    fails.append(("series-timeout-early", "confirm timeout reported %d ms after the fragment was sent, configured %s ms"
                                  % (int(tk[0]) - last_sol_tx, case.meta.get("cfg", {}).get("confirm_ms"))))
                series = None
            elif tk[1] == "info" and tk[2] == "sol_new_request":
                series = None
            elif tk[1] == ">" and tk[2] == "write":
                last_write = (tk[3] == "1", tk[4] == "1")
            elif tk[1] == "tx":
                b = bytes.fromhex(tk[3])
                if len(b) >= 4 and b[1] == 129:
                    last_sol_tx = int(tk[0])
                if len(b) < 4 or b[1] != 129 or last_write is None:
                    last_write = None
                    continue
                fir, fin, con, sq = bool(b[0] & 0x80), bool(b[0] & 0x40), bool(b[0] & 0x20), b[0] & 15
                complete, has_events = last_write
                last_write = None
                if series is None:
                    if not fir:
                        fails.append(("series-fir", "a fragment without FIR was sent although no series is open"))
                else:
                    if fir:
                        fails.append(("series-fir", "a non-first fragment carries FIR"))
                    if sq != series[0]:
                        fails.append(("series-sequence", "fragment sequence %d, expected %d" % (sq, series[0])))
                    if confirmed != series[1]:
                        fails.append(("series-gating", "the next fragment was sent without the confirm of fragment %d" % series[1]))
                if not fin and len(b) == 4:
                    fails.append(("empty-nonfinal-fragment", "a non-final fragment carries no object at all: the series makes no progress"))
                if fin != complete:
                    fails.append(("series-fin", "FIN is %d although the database says complete=%d" % (fin, complete)))
                if con != ((not complete) or has_events):
                    fails.append(("series-con", "CON is %d for complete=%d has_events=%d" % (con, complete, has_events)))
                series = None if fin else ((sq + 1) & 15, sq)
    return fails
