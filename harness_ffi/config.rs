// Configuration conversions of the binding layer (property C20), engine `ffi`, operation `cfg`:
//
//   cfg <kind> <field>=<value> ...     ffi cfg <kind> <binding field>=<value> ...
//                                      native cfg <kind> ret=ok <native field>=<value> ...
//                                                     or ret=<ParamError variant>
//
// The binding-side struct is built the way a C caller fills it: the raw `#[repr(C)]` struct of the
// generated `ffi` module (durations as integer counts, enums as integers), every field not named by
// the operation keeping the valid base value below.  The REAL conversion is then called
// (`convert_outstation_config` / `convert_udp_config` through /verif/harness_ffi/outstation_priv.rs,
// hook H8; the `TryFrom` / `From` impls of master/functions.rs and master/server.rs directly).
// The `ffi` line is read back from the struct that was passed, the `native` line from the value the
// conversion returned.  Canonical values: decimal numbers, durations in milliseconds
// (`<ms>+<ns>ns` when not a whole number of ms), `Option` as `none`/value, bools 0/1, enums by
// variant name, an error as the name of the `ffi::ParamError` variant.
//
// Both lines are printed by ONE macro (`show!`) that prints `stringify!(field)` next to `.field`,
// so the harness cannot pair a name with another field's value.  Which native field has to agree
// with which binding field, and under which reading, is decided by the oracle (tools/props/c20.py).
//
// `RetryStrategy`, `ConnectStrategy` and `LinkIdConfig` keep their fields private to dnp3: they are
// read through their derived `Debug` text (`debug_fields`).

use std::cell::RefCell;
use std::collections::{BTreeMap, BTreeSet};
use std::convert::TryFrom;
use std::fmt::Write as FmtWrite;
use std::os::raw::c_int;
use std::time::Duration;

use dnp3::app::{BufferSize, ConnectStrategy, RetryStrategy, Timeout, Timestamp};
use dnp3::link::EndpointAddress;
use dnp3::master::{
    AssociationConfig, DirReadConfig, FileReadConfig, MasterChannelConfig, TimeSyncProcedure,
};
use dnp3::outstation::database::{ClassZeroConfig, EventBufferConfig};
use dnp3::outstation::{Feature, Features};

use crate::ffi;

// ---- script arguments ------------------------------------------------------------------------

struct Args {
    m: BTreeMap<String, String>,
    used: RefCell<BTreeSet<String>>,
}

impl Args {
    fn new(toks: &[String]) -> Self {
        let mut m = BTreeMap::new();
        for t in toks {
            let (k, v) = t.split_once('=').expect("cfg argument without '='");
            if m.insert(k.to_string(), v.to_string()).is_some() {
                panic!("field {} given twice", k);
            }
        }
        Args {
            m,
            used: RefCell::new(BTreeSet::new()),
        }
    }

    fn raw(&self, key: &str) -> Option<&str> {
        self.used.borrow_mut().insert(key.to_string());
        self.m.get(key).map(|x| x.as_str())
    }

    /// a field name that no builder asked for is a mistake of the script, not a default
    fn finish(&self) {
        let used = self.used.borrow();
        for k in self.m.keys() {
            if !used.contains(k) {
                panic!("unknown field {}", k);
            }
        }
    }
}

trait Tok: Sized {
    fn tok(s: &str) -> Self;
}
macro_rules! tok_int {
    ($($t:ty),+) => { $(impl Tok for $t {
        fn tok(s: &str) -> Self { s.parse().unwrap_or_else(|_| panic!("bad {} {}", stringify!($t), s)) }
    })+ };
}
tok_int!(u16, u32, u64);
impl Tok for bool {
    fn tok(s: &str) -> Self {
        match s {
            "0" => false,
            "1" => true,
            other => panic!("bad bool {}", other),
        }
    }
}

fn get<T: Tok>(a: &Args, key: &str, default: T) -> T {
    match a.raw(key) {
        Some(s) => T::tok(s),
        None => default,
    }
}

/// variant name -> the integer a C caller passes
macro_rules! enum_tok {
    ($a:expr, $key:expr, $default:ident, $ty:ident, [$($name:ident),+]) => {
        match $a.raw($key).unwrap_or(stringify!($default)) {
            $(stringify!($name) => c_int::from(ffi::$ty::$name),)+
            other => panic!("unknown {} {}", stringify!($ty), other),
        }
    };
}

// ---- canonical values -------------------------------------------------------------------------

fn ms_of_nanos(ns: u128) -> String {
    let (ms, rem) = (ns / 1_000_000, ns % 1_000_000);
    if rem == 0 {
        ms.to_string()
    } else {
        format!("{}+{}ns", ms, rem)
    }
}

trait Canon {
    fn canon(&self) -> String;
}
macro_rules! canon_int {
    ($($t:ty),+) => { $(impl Canon for $t { fn canon(&self) -> String { self.to_string() } })+ };
}
canon_int!(u16, u32, u64, usize);
impl Canon for bool {
    fn canon(&self) -> String {
        (*self as u8).to_string()
    }
}
impl Canon for Duration {
    fn canon(&self) -> String {
        ms_of_nanos(self.as_nanos())
    }
}
impl<T: Canon> Canon for Option<T> {
    fn canon(&self) -> String {
        match self {
            None => "none".to_string(),
            Some(x) => x.canon(),
        }
    }
}
impl Canon for EndpointAddress {
    fn canon(&self) -> String {
        self.raw_value().to_string()
    }
}
impl<const MIN: usize, const DEFAULT: usize> Canon for BufferSize<MIN, DEFAULT> {
    fn canon(&self) -> String {
        self.value().to_string()
    }
}
impl Canon for Timeout {
    fn canon(&self) -> String {
        Duration::from(*self).canon()
    }
}
impl Canon for Feature {
    fn canon(&self) -> String {
        match self {
            Feature::Enabled => "1".to_string(),
            Feature::Disabled => "0".to_string(),
        }
    }
}
impl Canon for Timestamp {
    fn canon(&self) -> String {
        self.raw_value().to_string()
    }
}
impl Canon for std::net::SocketAddr {
    fn canon(&self) -> String {
        self.to_string()
    }
}

/// ` <prefix><field>=<canonical value of v.field>` for every listed field
macro_rules! show {
    ($out:expr, $pre:expr, $v:expr, [$($f:ident),+ $(,)?]) => {
        $( write!($out, " {}{}={}", $pre, stringify!($f), Canon::canon(&$v.$f)).unwrap(); )+
    };
}
/// the same for native enum fields (derived `Debug` = the variant name)
macro_rules! show_dbg {
    ($out:expr, $pre:expr, $v:expr, [$($f:ident),+ $(,)?]) => {
        $( write!($out, " {}{}={:?}", $pre, stringify!($f), $v.$f).unwrap(); )+
    };
}
/// the same for a binding-side enum field (an integer): the name of the variant it denotes
macro_rules! show_ffi_enum {
    ($out:expr, $pre:expr, $v:expr, $f:ident, $ty:ident) => {
        write!($out, " {}{}={:?}", $pre, stringify!($f), ffi::$ty::from($v.$f)).unwrap();
    };
}

// ---- values with private fields, read through `Debug` -------------------------------------------

/// `5s`, `1.5s`, `100ms`, `18446744073709551.615s`, `0ns` ... -> nanoseconds
fn duration_debug_nanos(s: &str) -> Option<u128> {
    let (num, unit): (&str, u128) = if let Some(n) = s.strip_suffix("ns") {
        (n, 1)
    } else if let Some(n) = s.strip_suffix("µs") {
        (n, 1_000)
    } else if let Some(n) = s.strip_suffix("ms") {
        (n, 1_000_000)
    } else if let Some(n) = s.strip_suffix('s') {
        (n, 1_000_000_000)
    } else {
        return None;
    };
    if num.is_empty() || !num.bytes().all(|b| b.is_ascii_digit() || b == b'.') {
        return None;
    }
    let (int, frac) = match num.split_once('.') {
        Some((i, f)) => (i, f),
        None => (num, ""),
    };
    let int: u128 = int.parse().ok()?;
    let mut total = int * unit;
    if !frac.is_empty() {
        let f: u128 = frac.parse().ok()?;
        let scale = 10u128.pow(frac.len() as u32);
        if (f * unit) % scale != 0 {
            return None;
        }
        total += f * unit / scale;
    }
    Some(total)
}

/// `Name { a: X, b: Y }` -> [(a, canonical X), (b, canonical Y)]
fn debug_fields(text: &str) -> Vec<(String, String)> {
    let open = text.find('{').expect("Debug text without {");
    let close = text.rfind('}').expect("Debug text without }");
    let inner = &text[open + 1..close];
    let mut parts: Vec<String> = Vec::new();
    let (mut depth, mut cur) = (0i32, String::new());
    for ch in inner.chars() {
        match ch {
            '(' | '{' | '[' => depth += 1,
            ')' | '}' | ']' => depth -= 1,
            _ => {}
        }
        if ch == ',' && depth == 0 {
            parts.push(std::mem::take(&mut cur));
        } else {
            cur.push(ch);
        }
    }
    if !cur.trim().is_empty() {
        parts.push(cur);
    }
    parts
        .iter()
        .map(|p| {
            let (k, v) = p.split_once(':').expect("Debug field without ':'");
            let v = v.trim();
            let v = v
                .strip_prefix("Timeout(")
                .and_then(|x| x.strip_suffix(')'))
                .unwrap_or(v);
            let v = match duration_debug_nanos(v) {
                Some(ns) => ms_of_nanos(ns),
                None => v.to_string(),
            };
            (k.trim().to_string(), v)
        })
        .collect()
}

fn show_debug(out: &mut String, text: &str) {
    for (k, v) in debug_fields(text) {
        write!(out, " {}={}", k, v).unwrap();
    }
}

// ---- builders of the binding-side structs ---------------------------------------------------------

fn decode_level(a: &Args, pre: &str) -> ffi::DecodeLevel {
    ffi::DecodeLevel {
        application: enum_tok!(
            a,
            &format!("{}application", pre),
            Nothing,
            AppDecodeLevel,
            [Nothing, Header, ObjectHeaders, ObjectValues]
        ),
        transport: enum_tok!(
            a,
            &format!("{}transport", pre),
            Nothing,
            TransportDecodeLevel,
            [Nothing, Header, Payload]
        ),
        link: enum_tok!(
            a,
            &format!("{}link", pre),
            Nothing,
            LinkDecodeLevel,
            [Nothing, Header, Payload]
        ),
        physical: enum_tok!(
            a,
            &format!("{}physical", pre),
            Nothing,
            PhysDecodeLevel,
            [Nothing, Length, Data]
        ),
    }
}

fn show_ffi_decode_level(out: &mut String, pre: &str, v: &ffi::DecodeLevel) {
    show_ffi_enum!(out, pre, v, application, AppDecodeLevel);
    show_ffi_enum!(out, pre, v, transport, TransportDecodeLevel);
    show_ffi_enum!(out, pre, v, link, LinkDecodeLevel);
    show_ffi_enum!(out, pre, v, physical, PhysDecodeLevel);
}

fn show_decode_level(out: &mut String, pre: &str, v: &dnp3::decode::DecodeLevel) {
    show_dbg!(out, pre, v, [application, transport, link, physical]);
}

fn event_buffer(a: &Args, pre: &str) -> ffi::EventBufferConfig {
    let k = |f: &str| format!("{}{}", pre, f);
    ffi::EventBufferConfig {
        max_binary: get(a, &k("max_binary"), 11u16),
        max_double_bit_binary: get(a, &k("max_double_bit_binary"), 12u16),
        max_binary_output_status: get(a, &k("max_binary_output_status"), 13u16),
        max_counter: get(a, &k("max_counter"), 14u16),
        max_frozen_counter: get(a, &k("max_frozen_counter"), 15u16),
        max_analog: get(a, &k("max_analog"), 16u16),
        max_analog_output_status: get(a, &k("max_analog_output_status"), 17u16),
        max_octet_string: get(a, &k("max_octet_string"), 18u16),
    }
}

fn show_ffi_event_buffer(out: &mut String, pre: &str, v: &ffi::EventBufferConfig) {
    show!(
        out,
        pre,
        v,
        [
            max_binary,
            max_double_bit_binary,
            max_binary_output_status,
            max_counter,
            max_frozen_counter,
            max_analog,
            max_analog_output_status,
            max_octet_string
        ]
    );
}

fn show_event_buffer(out: &mut String, pre: &str, v: &EventBufferConfig) {
    show!(
        out,
        pre,
        v,
        [
            max_binary,
            max_double_binary,
            max_binary_output_status,
            max_counter,
            max_frozen_counter,
            max_analog,
            max_analog_output_status,
            max_octet_string
        ]
    );
}

fn class_zero(a: &Args, pre: &str) -> ffi::ClassZeroConfig {
    let k = |f: &str| format!("{}{}", pre, f);
    ffi::ClassZeroConfig {
        binary: get(a, &k("binary"), true),
        double_bit_binary: get(a, &k("double_bit_binary"), true),
        binary_output_status: get(a, &k("binary_output_status"), true),
        counter: get(a, &k("counter"), true),
        frozen_counter: get(a, &k("frozen_counter"), true),
        analog: get(a, &k("analog"), true),
        analog_output_status: get(a, &k("analog_output_status"), true),
        octet_string: get(a, &k("octet_string"), false),
    }
}

macro_rules! show_class_zero {
    ($out:expr, $pre:expr, $v:expr) => {
        show!(
            $out,
            $pre,
            $v,
            [
                binary,
                double_bit_binary,
                binary_output_status,
                counter,
                frozen_counter,
                analog,
                analog_output_status,
                octet_string
            ]
        )
    };
}

fn features(a: &Args, pre: &str) -> ffi::OutstationFeatures {
    let k = |f: &str| format!("{}{}", pre, f);
    ffi::OutstationFeatures {
        self_address: get(a, &k("self_address"), false),
        broadcast: get(a, &k("broadcast"), true),
        unsolicited: get(a, &k("unsolicited"), true),
        respond_to_any_master: get(a, &k("respond_to_any_master"), false),
    }
}

macro_rules! show_features {
    ($out:expr, $pre:expr, $v:expr) => {
        show!(
            $out,
            $pre,
            $v,
            [self_address, broadcast, unsolicited, respond_to_any_master]
        )
    };
}

fn event_classes(a: &Args, pre: &str, d: (bool, bool, bool)) -> ffi::EventClasses {
    let k = |f: &str| format!("{}{}", pre, f);
    ffi::EventClasses {
        class1: get(a, &k("class1"), d.0),
        class2: get(a, &k("class2"), d.1),
        class3: get(a, &k("class3"), d.2),
    }
}

fn retry_strategy(a: &Args, pre: &str) -> ffi::RetryStrategy {
    let k = |f: &str| format!("{}{}", pre, f);
    ffi::RetryStrategy {
        min_delay: get(a, &k("min_delay"), 1000u64),
        max_delay: get(a, &k("max_delay"), 10000u64),
    }
}

fn ret_err(e: ffi::ParamError) -> String {
    format!(" ret={:?}", e)
}

// ---- the kinds ----------------------------------------------------------------------------------

fn cfg_outstation(a: &Args) -> (String, String) {
    let c = ffi::OutstationConfig {
        outstation_address: get(a, "outstation_address", 1024u16),
        master_address: get(a, "master_address", 1u16),
        event_buffer_config: event_buffer(a, "event_buffer_config."),
        solicited_buffer_size: get(a, "solicited_buffer_size", 2048u16),
        unsolicited_buffer_size: get(a, "unsolicited_buffer_size", 2049u16),
        rx_buffer_size: get(a, "rx_buffer_size", 2050u16),
        decode_level: decode_level(a, "decode_level."),
        confirm_timeout: get(a, "confirm_timeout", 5000u64),
        select_timeout: get(a, "select_timeout", 5001u64),
        features: features(a, "features."),
        max_unsolicited_retries: get(a, "max_unsolicited_retries", u32::MAX),
        unsolicited_retry_delay: get(a, "unsolicited_retry_delay", 5002u64),
        keep_alive_timeout: get(a, "keep_alive_timeout", 60000u64),
        max_read_request_headers: get(a, "max_read_request_headers", 64u16),
        max_controls_per_request: get(a, "max_controls_per_request", u16::MAX),
        class_zero: class_zero(a, "class_zero."),
    };
    a.finish();
    let mut f = String::new();
    show!(f, "", c, [outstation_address, master_address]);
    show_ffi_event_buffer(&mut f, "event_buffer_config.", &c.event_buffer_config);
    show!(
        f,
        "",
        c,
        [
            solicited_buffer_size,
            unsolicited_buffer_size,
            rx_buffer_size
        ]
    );
    show_ffi_decode_level(&mut f, "decode_level.", &c.decode_level);
    show!(f, "", c, [confirm_timeout, select_timeout]);
    show_features!(f, "features.", c.features);
    show!(
        f,
        "",
        c,
        [
            max_unsolicited_retries,
            unsolicited_retry_delay,
            keep_alive_timeout,
            max_read_request_headers,
            max_controls_per_request
        ]
    );
    show_class_zero!(f, "class_zero.", c.class_zero);

    let mut n = String::new();
    match crate::outstation::verif_priv::convert_outstation_config(c) {
        Err(e) => n.push_str(&ret_err(e)),
        Ok(o) => {
            n.push_str(" ret=ok");
            show!(n, "", o, [outstation_address, master_address]);
            show_event_buffer(&mut n, "event_buffer_config.", &o.event_buffer_config);
            show!(
                n,
                "",
                o,
                [
                    solicited_buffer_size,
                    unsolicited_buffer_size,
                    rx_buffer_size
                ]
            );
            show_decode_level(&mut n, "decode_level.", &o.decode_level);
            show!(n, "", o, [confirm_timeout, select_timeout]);
            show_features!(n, "features.", o.features);
            show!(
                n,
                "",
                o,
                [
                    max_unsolicited_retries,
                    unsolicited_retry_delay,
                    keep_alive_timeout,
                    max_read_request_headers,
                    max_controls_per_request
                ]
            );
            show_class_zero!(n, "class_zero.", o.class_zero);
        }
    }
    (f, n)
}

fn cfg_eventbuffer(a: &Args) -> (String, String) {
    let c = event_buffer(a, "");
    a.finish();
    let mut f = String::new();
    show_ffi_event_buffer(&mut f, "", &c);
    let o = EventBufferConfig::from(&c);
    let mut n = " ret=ok".to_string();
    show_event_buffer(&mut n, "", &o);
    (f, n)
}

fn cfg_classzero(a: &Args) -> (String, String) {
    let c = class_zero(a, "");
    a.finish();
    let mut f = String::new();
    show_class_zero!(f, "", c);
    let o = ClassZeroConfig::from(c);
    let mut n = " ret=ok".to_string();
    show_class_zero!(n, "", o);
    (f, n)
}

fn cfg_features(a: &Args) -> (String, String) {
    let c = features(a, "");
    a.finish();
    let mut f = String::new();
    show_features!(f, "", c);
    let o = Features::from(&c);
    let mut n = " ret=ok".to_string();
    show_features!(n, "", o);
    (f, n)
}

fn cfg_association(a: &Args) -> (String, String) {
    let c = ffi::AssociationConfig {
        response_timeout: get(a, "response_timeout", 5000u64),
        disable_unsol_classes: event_classes(a, "disable_unsol_classes.", (true, true, true)),
        enable_unsol_classes: event_classes(a, "enable_unsol_classes.", (true, true, true)),
        startup_integrity_classes: ffi::Classes {
            class0: get(a, "startup_integrity_classes.class0", true),
            class1: get(a, "startup_integrity_classes.class1", true),
            class2: get(a, "startup_integrity_classes.class2", true),
            class3: get(a, "startup_integrity_classes.class3", true),
        },
        auto_time_sync: enum_tok!(
            a,
            "auto_time_sync",
            None,
            AutoTimeSync,
            [None, Lan, NonLan, DirectWriteAbsTime]
        ),
        auto_tasks_retry_strategy: retry_strategy(a, "auto_tasks_retry_strategy."),
        keep_alive_timeout: get(a, "keep_alive_timeout", 60u64),
        auto_integrity_scan_on_buffer_overflow: get(
            a,
            "auto_integrity_scan_on_buffer_overflow",
            true,
        ),
        event_scan_on_events_available: event_classes(
            a,
            "event_scan_on_events_available.",
            (false, false, false),
        ),
        max_queued_user_requests: get(a, "max_queued_user_requests", 16u16),
    };
    a.finish();
    let mut f = String::new();
    show!(f, "", c, [response_timeout]);
    show!(
        f,
        "disable_unsol_classes.",
        c.disable_unsol_classes,
        [class1, class2, class3]
    );
    show!(
        f,
        "enable_unsol_classes.",
        c.enable_unsol_classes,
        [class1, class2, class3]
    );
    show!(
        f,
        "startup_integrity_classes.",
        c.startup_integrity_classes,
        [class0, class1, class2, class3]
    );
    show_ffi_enum!(f, "", c, auto_time_sync, AutoTimeSync);
    show!(
        f,
        "auto_tasks_retry_strategy.",
        c.auto_tasks_retry_strategy,
        [min_delay, max_delay]
    );
    show!(
        f,
        "",
        c,
        [keep_alive_timeout, auto_integrity_scan_on_buffer_overflow]
    );
    show!(
        f,
        "event_scan_on_events_available.",
        c.event_scan_on_events_available,
        [class1, class2, class3]
    );
    show!(f, "", c, [max_queued_user_requests]);

    let mut n = String::new();
    match AssociationConfig::try_from(c) {
        Err(e) => n.push_str(&ret_err(e)),
        Ok(o) => {
            n.push_str(" ret=ok");
            show!(n, "", o, [response_timeout]);
            show!(
                n,
                "disable_unsol_classes.",
                o.disable_unsol_classes,
                [class1, class2, class3]
            );
            show!(
                n,
                "enable_unsol_classes.",
                o.enable_unsol_classes,
                [class1, class2, class3]
            );
            show!(
                n,
                "startup_integrity_classes.",
                o.startup_integrity_classes,
                [class0]
            );
            show!(
                n,
                "startup_integrity_classes.events.",
                o.startup_integrity_classes.events,
                [class1, class2, class3]
            );
            let ats: Option<TimeSyncProcedure> = o.auto_time_sync;
            match ats {
                None => n.push_str(" auto_time_sync=none"),
                Some(p) => write!(n, " auto_time_sync={:?}", p).unwrap(),
            }
            for (k, v) in debug_fields(&format!("{:?}", o.auto_tasks_retry_strategy)) {
                write!(n, " auto_tasks_retry_strategy.{}={}", k, v).unwrap();
            }
            show!(
                n,
                "",
                o,
                [keep_alive_timeout, auto_integrity_scan_on_buffer_overflow]
            );
            show!(
                n,
                "event_scan_on_events_available.",
                o.event_scan_on_events_available,
                [class1, class2, class3]
            );
            show!(n, "", o, [max_queued_user_requests]);
        }
    }
    (f, n)
}

fn cfg_channel(a: &Args) -> (String, String) {
    let c = ffi::MasterChannelConfig {
        address: get(a, "address", 1u16),
        decode_level: decode_level(a, "decode_level."),
        tx_buffer_size: get(a, "tx_buffer_size", 2048u16),
        rx_buffer_size: get(a, "rx_buffer_size", 2049u16),
    };
    a.finish();
    let mut f = String::new();
    show!(f, "", c, [address]);
    show_ffi_decode_level(&mut f, "decode_level.", &c.decode_level);
    show!(f, "", c, [tx_buffer_size, rx_buffer_size]);
    let mut n = String::new();
    match MasterChannelConfig::try_from(c) {
        Err(e) => n.push_str(&ret_err(e)),
        Ok(o) => {
            n.push_str(" ret=ok");
            show!(n, "", o, [master_address]);
            show_decode_level(&mut n, "decode_level.", &o.decode_level);
            show!(n, "", o, [tx_buffer_size, rx_buffer_size]);
        }
    }
    (f, n)
}

fn cfg_retry(a: &Args) -> (String, String) {
    let c = retry_strategy(a, "");
    a.finish();
    let mut f = String::new();
    show!(f, "", c, [min_delay, max_delay]);
    let o = RetryStrategy::from(c);
    let mut n = " ret=ok".to_string();
    show_debug(&mut n, &format!("{:?}", o));
    (f, n)
}

fn cfg_connect(a: &Args) -> (String, String) {
    let c = ffi::ConnectStrategy {
        min_connect_delay: get(a, "min_connect_delay", 1000u64),
        max_connect_delay: get(a, "max_connect_delay", 10000u64),
        reconnect_delay: get(a, "reconnect_delay", 1001u64),
    };
    a.finish();
    let mut f = String::new();
    show!(
        f,
        "",
        c,
        [min_connect_delay, max_connect_delay, reconnect_delay]
    );
    let o = ConnectStrategy::from(c);
    let mut n = " ret=ok".to_string();
    show_debug(&mut n, &format!("{:?}", o));
    (f, n)
}

fn cfg_linkid(a: &Args) -> (String, String) {
    let c = ffi::LinkIdConfig {
        max_tasks: get(a, "max_tasks", 16u16),
        timeout: get(a, "timeout", 5000u64),
        decode_level: enum_tok!(
            a,
            "decode_level",
            Nothing,
            PhysDecodeLevel,
            [Nothing, Length, Data]
        ),
    };
    a.finish();
    let mut f = String::new();
    show!(f, "", c, [max_tasks, timeout]);
    show_ffi_enum!(f, "", c, decode_level, PhysDecodeLevel);
    let o = dnp3::tcp::LinkIdConfig::from(c);
    let mut n = " ret=ok".to_string();
    show_debug(&mut n, &format!("{:?}", o));
    (f, n)
}

fn cfg_fileread(a: &Args, dir: bool) -> (String, String) {
    let max_block_size = get(a, "max_block_size", 1024u16);
    let max_file_size = get(a, "max_file_size", 2048u32);
    a.finish();
    let mut f = String::new();
    let mut n = " ret=ok".to_string();
    if dir {
        let c = ffi::DirReadConfig {
            max_block_size,
            max_file_size,
        };
        show!(f, "", c, [max_block_size, max_file_size]);
        let o = DirReadConfig::from(c);
        show!(n, "", o, [max_block_size, max_file_size]);
    } else {
        let c = ffi::FileReadConfig {
            max_block_size,
            max_file_size,
        };
        show!(f, "", c, [max_block_size, max_file_size]);
        let o = FileReadConfig::from(c);
        show!(n, "", o, [max_block_size, max_file_size]);
    }
    (f, n)
}

fn cfg_utc(a: &Args) -> (String, String) {
    let c = ffi::UtcTimestamp {
        value: get(a, "value", 0u64),
        is_valid: get(a, "is_valid", true),
    };
    a.finish();
    let mut f = String::new();
    show!(f, "", c, [value, is_valid]);
    let o: Option<Timestamp> = c.into();
    let n = format!(" ret=ok value={}", o.canon());
    (f, n)
}

#[cfg(feature = "serial")]
fn cfg_serial(a: &Args) -> (String, String) {
    let c = ffi::SerialSettings {
        baud_rate: get(a, "baud_rate", 9600u32),
        data_bits: enum_tok!(a, "data_bits", Eight, DataBits, [Five, Six, Seven, Eight]),
        flow_control: enum_tok!(
            a,
            "flow_control",
            None,
            FlowControl,
            [None, Software, Hardware]
        ),
        parity: enum_tok!(a, "parity", None, Parity, [None, Odd, Even]),
        stop_bits: enum_tok!(a, "stop_bits", One, StopBits, [One, Two]),
    };
    a.finish();
    let mut f = String::new();
    show!(f, "", c, [baud_rate]);
    show_ffi_enum!(f, "", c, data_bits, DataBits);
    show_ffi_enum!(f, "", c, flow_control, FlowControl);
    show_ffi_enum!(f, "", c, parity, Parity);
    show_ffi_enum!(f, "", c, stop_bits, StopBits);
    let o = dnp3::serial::SerialSettings::from(c);
    let mut n = " ret=ok".to_string();
    show!(n, "", o, [baud_rate]);
    show_dbg!(n, "", o, [data_bits, flow_control, parity, stop_bits]);
    (f, n)
}

#[cfg(not(feature = "serial"))]
fn cfg_serial(a: &Args) -> (String, String) {
    panic!("built without the serial feature")
}

fn cfg_udp(a: &Args) -> (String, String) {
    let local = std::ffi::CString::new(a.raw("local_endpoint").unwrap_or("127.0.0.1:20000")).unwrap();
    let remote = std::ffi::CString::new(a.raw("remote_endpoint").unwrap_or("127.0.0.1:20001")).unwrap();
    let c = ffi::OutstationUdpConfig {
        local_endpoint: local.as_ptr(),
        remote_endpoint: remote.as_ptr(),
        socket_mode: enum_tok!(
            a,
            "socket_mode",
            OneToOne,
            UdpSocketMode,
            [OneToOne, OneToMany]
        ),
        link_read_mode: enum_tok!(
            a,
            "link_read_mode",
            Datagram,
            LinkReadMode,
            [Stream, Datagram]
        ),
        retry_delay: get(a, "retry_delay", 5000u64),
    };
    a.finish();
    let mut f = format!(
        " local_endpoint={} remote_endpoint={}",
        local.to_str().unwrap(),
        remote.to_str().unwrap()
    );
    show_ffi_enum!(f, "", c, socket_mode, UdpSocketMode);
    show_ffi_enum!(f, "", c, link_read_mode, LinkReadMode);
    show!(f, "", c, [retry_delay]);
    let mut n = String::new();
    match unsafe { crate::outstation::verif_priv::convert_udp_config(c) } {
        Err(e) => n.push_str(&ret_err(e)),
        Ok(o) => {
            n.push_str(" ret=ok");
            show!(n, "", o, [local_endpoint, remote_endpoint]);
            show_dbg!(n, "", o, [socket_mode, link_read_mode]);
            show!(n, "", o, [retry_delay]);
        }
    }
    (f, n)
}

/// one `cfg` operation -> (rest of the `ffi` line, rest of the `native` line)
pub(super) fn run_cfg(op: &[String]) -> (String, String) {
    let a = Args::new(&op[2..]);
    match op[1].as_str() {
        "outstation" => cfg_outstation(&a),
        "eventbuffer" => cfg_eventbuffer(&a),
        "classzero" => cfg_classzero(&a),
        "features" => cfg_features(&a),
        "association" => cfg_association(&a),
        "channel" => cfg_channel(&a),
        "retry" => cfg_retry(&a),
        "connect" => cfg_connect(&a),
        "linkid" => cfg_linkid(&a),
        "fileread" => cfg_fileread(&a, false),
        "dirread" => cfg_fileread(&a, true),
        "utc" => cfg_utc(&a),
        "serial" => cfg_serial(&a),
        "udp" => cfg_udp(&a),
        other => panic!("unknown cfg kind {}", other),
    }
}
