// Correspondence harness for property C20, compiled INTO dnp3-ffi's own test build through hook H4
// (`#[cfg(all(test, dnp3_verif))] #[path = "/verif/harness_ffi/mod.rs"] mod verif_harness_ffi;`).
//
// One entry point: the test `verif_ffi_run` reads the script file named by VERIF_SCRIPTS and writes
// one trace per script to VERIF_OUT, in the line format of /verif/harness/mod.rs:
//
//   S <id> ffi evbuf=<n>                 T <id>
//   <op> <args>                          ffi <op> ... ret=<r> pt=<p>
//   E                                    native <op> ... ret=<r> pt=<p>
//                                        E
//
// (operation `cfg <kind> <field>=<value> ...`: the configuration conversions, see config.rs; its two
// lines carry the binding-side and the native-side FIELD VALUES and are compared by the oracle's rule
// table, not for equality)
//
// Engine `ffi`: every operation is executed twice on two identical, freshly created databases:
//   * `ffi`    through the exported C functions `dnp3_database_*` of this crate (arguments are the
//              C structs a foreign caller would pass: enums as integers, flags, time stamps with a
//              quality, update options), i.e. through ALL the conversion code of the binding layer;
//   * `native` through dnp3's own `Database` API (`Add`, `Remove`, `Update`, `UpdateFlags`, `Get`).
// `ret` is the value returned to the caller (bool / UpdateInfo / the point as returned by `get`),
// `pt` is `Database::get` of the touched point afterwards, read natively on both databases.
// The two lines of an operation must be identical.
//
// The databases are obtained the way the crate itself obtains them: `Database::new` is private to
// dnp3, so each one belongs to an outstation spawned (never polled, never bound) in a tokio
// runtime, and is reached through `OutstationHandle::transaction`.
//
// Script tokens -> values: the harness has its own by-name tables (macro `pick!`): the same
// identifier is looked up in the binding enum and in the native enum, so the pairing is by
// namesake and independent of the conversion code under test.

#![allow(clippy::all)]
#![allow(unused)]

use std::collections::BTreeMap;
use std::fmt::Write as FmtWrite;

use dnp3::app::measurement::*;
use dnp3::app::Timestamp;
use dnp3::link::{EndpointAddress, LinkReadMode};
use dnp3::outstation::database::*;
use dnp3::outstation::*;

use crate::ffi;

// configuration conversions (operation `cfg`), see the header of that file
#[path = "/verif/harness_ffi/config.rs"]
mod config;

struct Script {
    id: String,
    engine: String,
    cfg: BTreeMap<String, String>,
    ops: Vec<Vec<String>>,
}

fn parse_scripts(text: &str) -> Vec<Script> {
    let mut out = Vec::new();
    let mut cur: Option<Script> = None;
    for line in text.lines() {
        let line = line.trim();
        if line.is_empty() || line.starts_with('#') {
            continue;
        }
        let toks: Vec<String> = line.split_whitespace().map(|x| x.to_string()).collect();
        match toks[0].as_str() {
            "S" => {
                let mut cfg = BTreeMap::new();
                for kv in &toks[3..] {
                    let (k, v) = kv.split_once('=').expect("cfg token without '='");
                    cfg.insert(k.to_string(), v.to_string());
                }
                cur = Some(Script {
                    id: toks[1].clone(),
                    engine: toks[2].clone(),
                    cfg,
                    ops: Vec::new(),
                });
            }
            "E" => out.push(cur.take().expect("E without S")),
            _ => cur.as_mut().expect("op outside script").ops.push(toks),
        }
    }
    out
}

fn unhex(s: &str) -> Vec<u8> {
    if s == "-" {
        return Vec::new();
    }
    let b = s.as_bytes();
    assert!(b.len() % 2 == 0, "odd hex length");
    let v = |c: u8| -> u8 {
        match c {
            b'0'..=b'9' => c - b'0',
            b'a'..=b'f' => c - b'a' + 10,
            _ => panic!("bad hex digit"),
        }
    };
    b.chunks(2).map(|p| (v(p[0]) << 4) | v(p[1])).collect()
}

fn hex(data: &[u8]) -> String {
    if data.is_empty() {
        return "-".to_string();
    }
    let mut s = String::new();
    for b in data {
        write!(s, "{:02x}", b).unwrap();
    }
    s
}

struct NullApp;
impl OutstationApplication for NullApp {}
struct NullInfo;
impl OutstationInformation for NullInfo {}

fn new_outstation(evbuf: u16) -> OutstationHandle {
    let config = OutstationConfig::new(
        EndpointAddress::try_new(1024).unwrap(),
        EndpointAddress::try_new(1).unwrap(),
        EventBufferConfig::all_types(evbuf),
    );
    let udp = dnp3::udp::OutstationUdpConfig {
        local_endpoint: "127.0.0.1:0".parse().unwrap(),
        remote_endpoint: "127.0.0.1:1".parse().unwrap(),
        socket_mode: dnp3::udp::UdpSocketMode::OneToOne,
        link_read_mode: LinkReadMode::Datagram,
        retry_delay: dnp3::app::Timeout::from_secs(3600).unwrap(),
    };
    // the task is spawned on a current-thread runtime that is never driven: no socket is bound
    dnp3::udp::spawn_outstation_udp(
        udp,
        config,
        Box::new(NullApp),
        Box::new(NullInfo),
        DefaultControlHandler::create(),
    )
}

/// (binding-side integer as a C caller passes it, native value) of the variant called `$name`
macro_rules! pick {
    ($tok:expr, $ffi:ident, $native:ident, [$($name:ident),+]) => {
        match $tok {
            $(stringify!($name) => {
                let f: std::os::raw::c_int = ffi::$ffi::$name.into();
                (f, $native::$name)
            })+
            other => panic!("unknown {} {}", stringify!($ffi), other),
        }
    };
}

fn event_class(tok: &str) -> (std::os::raw::c_int, Option<EventClass>) {
    match tok {
        "none" => (ffi::EventClass::None.into(), None),
        "c1" => (ffi::EventClass::Class1.into(), Some(EventClass::Class1)),
        "c2" => (ffi::EventClass::Class2.into(), Some(EventClass::Class2)),
        "c3" => (ffi::EventClass::Class3.into(), Some(EventClass::Class3)),
        other => panic!("unknown class {}", other),
    }
}

fn event_mode(tok: &str) -> (std::os::raw::c_int, EventMode) {
    match tok {
        "detect" => (ffi::EventMode::Detect.into(), EventMode::Detect),
        "force" => (ffi::EventMode::Force.into(), EventMode::Force),
        "suppress" => (ffi::EventMode::Suppress.into(), EventMode::Suppress),
        other => panic!("unknown event mode {}", other),
    }
}

fn options(us: &str, em: &str) -> (ffi::UpdateOptions, UpdateOptions) {
    let us = us == "1";
    let (fem, nem) = event_mode(em);
    (
        ffi::UpdateOptions {
            update_static: us,
            event_mode: fem,
        },
        UpdateOptions::new(us, nem),
    )
}

fn time(tq: &str, value: &str) -> (ffi::Timestamp, Option<Time>) {
    let v: u64 = value.parse().expect("bad time value");
    match tq {
        "inv" => (
            ffi::Timestamp {
                value: v,
                quality: ffi::TimeQuality::InvalidTime.into(),
            },
            None,
        ),
        "sync" => (
            ffi::Timestamp {
                value: v,
                quality: ffi::TimeQuality::SynchronizedTime.into(),
            },
            Some(Time::Synchronized(Timestamp::new(v))),
        ),
        "unsync" => (
            ffi::Timestamp {
                value: v,
                quality: ffi::TimeQuality::UnsynchronizedTime.into(),
            },
            Some(Time::Unsynchronized(Timestamp::new(v))),
        ),
        other => panic!("unknown time quality {}", other),
    }
}

fn flags(tok: &str) -> (ffi::Flags, Flags) {
    let v: u8 = tok.parse().expect("bad flags");
    (ffi::Flags { value: v }, Flags::new(v))
}

fn show_time(t: Option<Time>) -> String {
    match t {
        None => "inv:0".to_string(),
        Some(Time::Synchronized(t)) => format!("sync:{}", t.raw_value()),
        Some(Time::Unsynchronized(t)) => format!("unsync:{}", t.raw_value()),
    }
}

fn show_ffi_time(t: &ffi::Timestamp) -> String {
    let q = if t.quality == std::os::raw::c_int::from(ffi::TimeQuality::InvalidTime) {
        "inv"
    } else if t.quality == std::os::raw::c_int::from(ffi::TimeQuality::SynchronizedTime) {
        "sync"
    } else if t.quality == std::os::raw::c_int::from(ffi::TimeQuality::UnsynchronizedTime) {
        "unsync"
    } else {
        "badquality"
    };
    format!("{}:{}", q, t.value)
}

fn show_info(i: UpdateInfo) -> String {
    match i {
        UpdateInfo::NoPoint => "nopoint".to_string(),
        UpdateInfo::NoEvent => "noevent".to_string(),
        UpdateInfo::Created(id) => format!("created:{}", id),
        UpdateInfo::Overflow { created, discarded } => {
            format!("overflow:{}:{}", created, discarded)
        }
    }
}

fn show_ffi_info(i: &ffi::UpdateInfo) -> String {
    let c = |x: ffi::UpdateResult| std::os::raw::c_int::from(x);
    if i.result == c(ffi::UpdateResult::NoPoint) {
        // the C struct always carries the two counters: they must be zero here
        format!(
            "nopoint{}",
            if i.created == 0 && i.discarded == 0 {
                ""
            } else {
                ":nonzero"
            }
        )
    } else if i.result == c(ffi::UpdateResult::NoEvent) {
        format!(
            "noevent{}",
            if i.created == 0 && i.discarded == 0 {
                ""
            } else {
                ":nonzero"
            }
        )
    } else if i.result == c(ffi::UpdateResult::Created) {
        format!(
            "created:{}{}",
            i.created,
            if i.discarded == 0 { "" } else { ":nonzero" }
        )
    } else if i.result == c(ffi::UpdateResult::Overflow) {
        format!("overflow:{}:{}", i.created, i.discarded)
    } else {
        format!("badresult:{}", i.result)
    }
}

fn double_bit(tok: &str) -> (std::os::raw::c_int, DoubleBit) {
    pick!(
        tok,
        DoubleBit,
        DoubleBit,
        [Intermediate, DeterminedOff, DeterminedOn, Indeterminate]
    )
}

fn show_double_bit(d: DoubleBit) -> &'static str {
    match d {
        DoubleBit::Intermediate => "Intermediate",
        DoubleBit::DeterminedOff => "DeterminedOff",
        DoubleBit::DeterminedOn => "DeterminedOn",
        DoubleBit::Indeterminate => "Indeterminate",
    }
}

fn show_ffi_double_bit(v: std::os::raw::c_int) -> &'static str {
    let c = |x: ffi::DoubleBit| std::os::raw::c_int::from(x);
    if v == c(ffi::DoubleBit::Intermediate) {
        "Intermediate"
    } else if v == c(ffi::DoubleBit::DeterminedOff) {
        "DeterminedOff"
    } else if v == c(ffi::DoubleBit::DeterminedOn) {
        "DeterminedOn"
    } else if v == c(ffi::DoubleBit::Indeterminate) {
        "Indeterminate"
    } else {
        "badvalue"
    }
}

fn f64_of(tok: &str) -> f64 {
    f64::from_bits(u64::from_str_radix(tok, 16).expect("bad f64 bits"))
}

/// canonical text of a point: value:flags:quality:time
macro_rules! show_point {
    ($p:expr, $val:expr) => {
        match $p {
            None => "none".to_string(),
            Some(p) => format!("{}:{}:{}", $val(p.value), p.flags.value, show_time(p.time)),
        }
    };
}

fn show_bool(b: bool) -> String {
    (b as u8).to_string()
}
fn show_u32(v: u32) -> String {
    v.to_string()
}
fn show_f64(v: f64) -> String {
    format!("{:016x}", v.to_bits())
}
fn show_db(v: DoubleBit) -> String {
    show_double_bit(v).to_string()
}

/// status code of the C `get` functions -> text
fn get_status(code: std::os::raw::c_int) -> Option<String> {
    if code == std::os::raw::c_int::from(ffi::ParamError::Ok) {
        None
    } else if code == std::os::raw::c_int::from(ffi::ParamError::PointDoesNotExist) {
        Some("none".to_string())
    } else {
        Some(format!("err:{}", code))
    }
}

/// operations of one point type that has value/flags/time and a configuration with variations
macro_rules! point_ops {
    ($fname:ident, $native:ident, $config:ident, $ffi_pt:ident, $ffi_cfg:ident,
     $c_add:ident, $c_remove:ident, $c_update:ident, $c_update2:ident, $c_get:ident,
     $svar_ffi:ident, $svar:ident, [$($sv:ident),+], $evar_ffi:ident, $evar:ident, [$($ev:ident),+],
     $parse_value:expr, $show_value:expr, $show_ffi_value:expr, $mk_cfg_ffi:expr, $mk_cfg:expr, $flags_type:ident) => {
        fn $fname(op: &[String], fdb: *mut Database, ndb: &mut Database) -> (String, String) {
            let idx: u16 = op[2].parse().expect("bad index");
            let (fret, nret): (String, String) = match op[0].as_str() {
                "add" => {
                    let (fclass, nclass) = event_class(&op[3]);
                    let (fs, ns) = pick!(op[4].as_str(), $svar_ffi, $svar, [$($sv),+]);
                    let (fe, ne) = pick!(op[5].as_str(), $evar_ffi, $evar, [$($ev),+]);
                    let db = f64_of(&op[6]);
                    let fcfg: ffi::$ffi_cfg = $mk_cfg_ffi(fs, fe, db);
                    let ncfg: $config = $mk_cfg(ns, ne, db);
                    let f = unsafe { ffi::$c_add(fdb, idx, fclass, fcfg) };
                    let n = ndb.add(idx, nclass, ncfg);
                    (f.to_string(), n.to_string())
                }
                "rem" => {
                    let f = unsafe { ffi::$c_remove(fdb, idx) };
                    let n = Remove::<$native>::remove(ndb, idx);
                    (f.to_string(), n.to_string())
                }
                "upd" | "upd2" => {
                    let (fv, nv) = $parse_value(op[3].as_str());
                    let (ff, nf) = flags(&op[4]);
                    let (ft, nt) = time(&op[5], &op[6]);
                    let (fo, no) = options(&op[7], &op[8]);
                    let fpt = ffi::$ffi_pt { index: idx, value: fv, flags: ff, time: ft };
                    let npt = $native { value: nv, flags: nf, time: nt };
                    if op[0] == "upd" {
                        let f = unsafe { ffi::$c_update(fdb, fpt, fo) };
                        let n = ndb.update(idx, &npt, no);
                        (f.to_string(), n.to_string())
                    } else {
                        let f = unsafe { ffi::$c_update2(fdb, fpt, fo) };
                        let n = ndb.update2(idx, &npt, no);
                        (show_ffi_info(&f), show_info(n))
                    }
                }
                "flg" => {
                    let (ff, nf) = flags(&op[3]);
                    let (ft, nt) = time(&op[4], &op[5]);
                    let (fo, no) = options(&op[6], &op[7]);
                    let fty: std::os::raw::c_int = ffi::UpdateFlagsType::$flags_type.into();
                    let f = unsafe { ffi::dnp3_database_update_flags(fdb, idx, fty, ff, ft, fo) };
                    let n = ndb.update_flags(idx, UpdateFlagsType::$flags_type, nf, nt, no);
                    (show_ffi_info(&f), show_info(n))
                }
                "get" => {
                    let mut out = std::mem::MaybeUninit::<ffi::$ffi_pt>::uninit();
                    let code = unsafe { ffi::$c_get(fdb, idx, out.as_mut_ptr()) };
                    let f = match get_status(code) {
                        Some(s) => s,
                        None => {
                            let p = unsafe { out.assume_init() };
                            format!("{}:{}:{}:{}", p.index, $show_ffi_value(p.value), p.flags.value, show_ffi_time(&p.time))
                        }
                    };
                    let n = match Get::<$native>::get(ndb, idx) {
                        None => "none".to_string(),
                        Some(p) => format!("{}:{}:{}:{}", idx, $show_value(p.value), p.flags.value, show_time(p.time)),
                    };
                    (f, n)
                }
                other => panic!("unknown op {}", other),
            };
            // the touched point afterwards, read natively on both databases
            let fpt = show_point!(Get::<$native>::get(unsafe { &*fdb }, idx), $show_value);
            let npt = show_point!(Get::<$native>::get(ndb, idx), $show_value);
            (format!("ret={} pt={}", fret, fpt), format!("ret={} pt={}", nret, npt))
        }
    };
}

fn parse_bool(tok: &str) -> (bool, bool) {
    (tok == "1", tok == "1")
}
fn parse_u32(tok: &str) -> (u32, u32) {
    let v: u32 = tok.parse().expect("bad u32");
    (v, v)
}
fn parse_f64(tok: &str) -> (f64, f64) {
    (f64_of(tok), f64_of(tok))
}

point_ops!(
    run_bi,
    BinaryInput,
    BinaryInputConfig,
    BinaryInput,
    BinaryInputConfig,
    dnp3_database_add_binary_input,
    dnp3_database_remove_binary_input,
    dnp3_database_update_binary_input,
    dnp3_database_update_binary_input_2,
    dnp3_database_get_binary_input,
    StaticBinaryInputVariation,
    StaticBinaryInputVariation,
    [Group1Var1, Group1Var2],
    EventBinaryInputVariation,
    EventBinaryInputVariation,
    [Group2Var1, Group2Var2, Group2Var3],
    parse_bool,
    show_bool,
    show_bool,
    |s, e, _d: f64| ffi::BinaryInputConfig {
        static_variation: s,
        event_variation: e
    },
    |s, e, _d: f64| BinaryInputConfig::new(s, e),
    BinaryInput
);

point_ops!(
    run_dbbi,
    DoubleBitBinaryInput,
    DoubleBitBinaryInputConfig,
    DoubleBitBinaryInput,
    DoubleBitBinaryInputConfig,
    dnp3_database_add_double_bit_binary_input,
    dnp3_database_remove_double_bit_binary_input,
    dnp3_database_update_double_bit_binary_input,
    dnp3_database_update_double_bit_binary_input_2,
    dnp3_database_get_double_bit_binary_input,
    StaticDoubleBitBinaryInputVariation,
    StaticDoubleBitBinaryInputVariation,
    [Group3Var1, Group3Var2],
    EventDoubleBitBinaryInputVariation,
    EventDoubleBitBinaryInputVariation,
    [Group4Var1, Group4Var2, Group4Var3],
    double_bit,
    show_db,
    |v| show_ffi_double_bit(v).to_string(),
    |s, e, _d: f64| ffi::DoubleBitBinaryInputConfig {
        static_variation: s,
        event_variation: e
    },
    |s, e, _d: f64| DoubleBitBinaryInputConfig::new(s, e),
    DoubleBitBinaryInput
);

point_ops!(
    run_bos,
    BinaryOutputStatus,
    BinaryOutputStatusConfig,
    BinaryOutputStatus,
    BinaryOutputStatusConfig,
    dnp3_database_add_binary_output_status,
    dnp3_database_remove_binary_output_status,
    dnp3_database_update_binary_output_status,
    dnp3_database_update_binary_output_status_2,
    dnp3_database_get_binary_output_status,
    StaticBinaryOutputStatusVariation,
    StaticBinaryOutputStatusVariation,
    [Group10Var1, Group10Var2],
    EventBinaryOutputStatusVariation,
    EventBinaryOutputStatusVariation,
    [Group11Var1, Group11Var2],
    parse_bool,
    show_bool,
    show_bool,
    |s, e, _d: f64| ffi::BinaryOutputStatusConfig {
        static_variation: s,
        event_variation: e
    },
    |s, e, _d: f64| BinaryOutputStatusConfig::new(s, e),
    BinaryOutputStatus
);

point_ops!(
    run_ctr,
    Counter,
    CounterConfig,
    Counter,
    CounterConfig,
    dnp3_database_add_counter,
    dnp3_database_remove_counter,
    dnp3_database_update_counter,
    dnp3_database_update_counter_2,
    dnp3_database_get_counter,
    StaticCounterVariation,
    StaticCounterVariation,
    [Group20Var1, Group20Var2, Group20Var5, Group20Var6],
    EventCounterVariation,
    EventCounterVariation,
    [Group22Var1, Group22Var2, Group22Var5, Group22Var6],
    parse_u32,
    show_u32,
    show_u32,
    |s, e, d: f64| ffi::CounterConfig {
        static_variation: s,
        event_variation: e,
        deadband: d as u32
    },
    |s, e, d: f64| CounterConfig::new(s, e, d as u32),
    Counter
);

point_ops!(
    run_fctr,
    FrozenCounter,
    FrozenCounterConfig,
    FrozenCounter,
    FrozenCounterConfig,
    dnp3_database_add_frozen_counter,
    dnp3_database_remove_frozen_counter,
    dnp3_database_update_frozen_counter,
    dnp3_database_update_frozen_counter_2,
    dnp3_database_get_frozen_counter,
    StaticFrozenCounterVariation,
    StaticFrozenCounterVariation,
    [
        Group21Var1,
        Group21Var2,
        Group21Var5,
        Group21Var6,
        Group21Var9,
        Group21Var10
    ],
    EventFrozenCounterVariation,
    EventFrozenCounterVariation,
    [Group23Var1, Group23Var2, Group23Var5, Group23Var6],
    parse_u32,
    show_u32,
    show_u32,
    |s, e, d: f64| ffi::FrozenCounterConfig {
        static_variation: s,
        event_variation: e,
        deadband: d as u32
    },
    |s, e, d: f64| FrozenCounterConfig::new(s, e, d as u32),
    FrozenCounter
);

point_ops!(
    run_ai,
    AnalogInput,
    AnalogInputConfig,
    AnalogInput,
    AnalogInputConfig,
    dnp3_database_add_analog_input,
    dnp3_database_remove_analog_input,
    dnp3_database_update_analog_input,
    dnp3_database_update_analog_input_2,
    dnp3_database_get_analog_input,
    StaticAnalogInputVariation,
    StaticAnalogInputVariation,
    [
        Group30Var1,
        Group30Var2,
        Group30Var3,
        Group30Var4,
        Group30Var5,
        Group30Var6
    ],
    EventAnalogInputVariation,
    EventAnalogInputVariation,
    [
        Group32Var1,
        Group32Var2,
        Group32Var3,
        Group32Var4,
        Group32Var5,
        Group32Var6,
        Group32Var7,
        Group32Var8
    ],
    parse_f64,
    show_f64,
    show_f64,
    |s, e, d: f64| ffi::AnalogInputConfig {
        static_variation: s,
        event_variation: e,
        deadband: d
    },
    |s, e, d: f64| AnalogInputConfig::new(s, e, d),
    AnalogInput
);

point_ops!(
    run_aos,
    AnalogOutputStatus,
    AnalogOutputStatusConfig,
    AnalogOutputStatus,
    AnalogOutputStatusConfig,
    dnp3_database_add_analog_output_status,
    dnp3_database_remove_analog_output_status,
    dnp3_database_update_analog_output_status,
    dnp3_database_update_analog_output_status_2,
    dnp3_database_get_analog_output_status,
    StaticAnalogOutputStatusVariation,
    StaticAnalogOutputStatusVariation,
    [Group40Var1, Group40Var2, Group40Var3, Group40Var4],
    EventAnalogOutputStatusVariation,
    EventAnalogOutputStatusVariation,
    [
        Group42Var1,
        Group42Var2,
        Group42Var3,
        Group42Var4,
        Group42Var5,
        Group42Var6,
        Group42Var7,
        Group42Var8
    ],
    parse_f64,
    show_f64,
    show_f64,
    |s, e, d: f64| ffi::AnalogOutputStatusConfig {
        static_variation: s,
        event_variation: e,
        deadband: d
    },
    |s, e, d: f64| AnalogOutputStatusConfig::new(s, e, d),
    AnalogOutputStatus
);

/// octet strings: add / rem / upd / upd2 (the binding has no get for them)
fn run_os(op: &[String], fdb: *mut Database, ndb: &mut Database) -> (String, String) {
    let idx: u16 = op[2].parse().expect("bad index");
    let (fret, nret): (String, String) = match op[0].as_str() {
        "add" => {
            let (fclass, nclass) = event_class(&op[3]);
            let f = unsafe { ffi::dnp3_database_add_octet_string(fdb, idx, fclass) };
            let n = ndb.add(idx, nclass, OctetStringConfig);
            (f.to_string(), n.to_string())
        }
        "rem" => {
            let f = unsafe { ffi::dnp3_database_remove_octet_string(fdb, idx) };
            let n = Remove::<OctetString>::remove(ndb, idx);
            (f.to_string(), n.to_string())
        }
        "upd" | "upd2" => {
            let bytes = unhex(&op[3]);
            let (fo, no) = options(&op[4], &op[5]);
            let val = unsafe { ffi::dnp3_octet_string_value_create() };
            for b in &bytes {
                unsafe { ffi::dnp3_octet_string_value_add(val, *b) };
            }
            let nval = OctetString::new(&bytes).ok();
            let r = if op[0] == "upd" {
                let f = unsafe { ffi::dnp3_database_update_octet_string(fdb, idx, val, fo) };
                // an octet string of invalid length (0 or > 255 bytes) is refused by both sides
                let n = match &nval {
                    Some(v) => ndb.update(idx, v, no),
                    None => false,
                };
                (f.to_string(), n.to_string())
            } else {
                let f = unsafe { ffi::dnp3_database_update_octet_string_2(fdb, idx, val, fo) };
                let n = match &nval {
                    Some(v) => ndb.update2(idx, v, no),
                    None => UpdateInfo::NoPoint,
                };
                (show_ffi_info(&f), show_info(n))
            };
            unsafe { ffi::dnp3_octet_string_value_destroy(val) };
            r
        }
        "get" => ("n/a".to_string(), "n/a".to_string()),
        other => panic!("unknown op {}", other),
    };
    let show = |p: Option<OctetString>| match p {
        None => "none".to_string(),
        Some(p) => hex(p.value()),
    };
    let fpt = show(Get::<OctetString>::get(unsafe { &*fdb }, idx));
    let npt = show(Get::<OctetString>::get(ndb, idx));
    (
        format!("ret={} pt={}", fret, fpt),
        format!("ret={} pt={}", nret, npt),
    )
}

fn run_ffi(script: &Script, obs: &mut Vec<String>) {
    // `cfg` operations touch no database: a script made of them alone needs no outstation
    if script.ops.iter().all(|op| op[0] == "cfg") {
        for op in &script.ops {
            let (f, n) = config::run_cfg(op);
            obs.push(format!("ffi cfg {}{}", op[1], f));
            obs.push(format!("native cfg {}{}", op[1], n));
        }
        return;
    }
    let evbuf: u16 = script
        .cfg
        .get("evbuf")
        .map(|x| x.parse().unwrap())
        .unwrap_or(10);
    let ffi_side = new_outstation(evbuf);
    let native_side = new_outstation(evbuf);
    ffi_side.transaction(|fdb_ref| {
        let fdb: *mut Database = fdb_ref as *mut Database;
        native_side.transaction(|ndb| {
            for op in &script.ops {
                if op[0] == "cfg" {
                    let (f, n) = config::run_cfg(op);
                    obs.push(format!("ffi cfg {}{}", op[1], f));
                    obs.push(format!("native cfg {}{}", op[1], n));
                    continue;
                }
                let (f, n) = match op[1].as_str() {
                    "bi" => run_bi(op, fdb, ndb),
                    "dbbi" => run_dbbi(op, fdb, ndb),
                    "bos" => run_bos(op, fdb, ndb),
                    "ctr" => run_ctr(op, fdb, ndb),
                    "fctr" => run_fctr(op, fdb, ndb),
                    "ai" => run_ai(op, fdb, ndb),
                    "aos" => run_aos(op, fdb, ndb),
                    "os" => run_os(op, fdb, ndb),
                    other => panic!("unknown point type {}", other),
                };
                let head = format!("{} {} {}", op[0], op[1], op[2]);
                obs.push(format!("ffi {} {}", head, f));
                obs.push(format!("native {} {}", head, n));
            }
        })
    });
}

fn panic_text(e: &Box<dyn std::any::Any + Send>) -> String {
    let s = if let Some(s) = e.downcast_ref::<&str>() {
        s.to_string()
    } else if let Some(s) = e.downcast_ref::<String>() {
        s.clone()
    } else {
        "unknown".to_string()
    };
    s.replace(|c: char| c.is_whitespace(), "_")
}

#[test]
fn verif_ffi_run() {
    let path = match std::env::var("VERIF_SCRIPTS") {
        Ok(p) => p,
        Err(_) => return, // nothing to do when run as part of the ordinary suite
    };
    let out_path = std::env::var("VERIF_OUT").expect("VERIF_OUT not set");
    let text = std::fs::read_to_string(&path).expect("cannot read VERIF_SCRIPTS");
    let scripts = parse_scripts(&text);
    std::panic::set_hook(Box::new(|_| {}));
    let rt = tokio::runtime::Builder::new_current_thread()
        .enable_all()
        .build()
        .unwrap();
    let _enter = rt.enter();
    let mut out = String::new();
    for s in &scripts {
        let mut obs: Vec<String> = Vec::new();
        let res =
            std::panic::catch_unwind(std::panic::AssertUnwindSafe(|| match s.engine.as_str() {
                "ffi" => run_ffi(s, &mut obs),
                other => obs.push(format!("unknown-engine {}", other)),
            }));
        if let Err(e) = res {
            obs.push(format!("panic {}", panic_text(&e)));
        }
        writeln!(out, "T {}", s.id).unwrap();
        for o in obs {
            writeln!(out, "{}", o).unwrap();
        }
        writeln!(out, "E").unwrap();
    }
    std::fs::write(&out_path, out).expect("cannot write VERIF_OUT");
}
