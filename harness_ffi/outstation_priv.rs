// Included as a CHILD module of dnp3-ffi's `outstation` module (hook H8:
// `#[cfg(all(test, dnp3_verif))] #[path = "/verif/harness_ffi/outstation_priv.rs"] pub(crate) mod verif_priv;`)
// so that the module-private configuration conversions can be named by /verif/harness_ffi/config.rs.
// Nothing but forwarding: the functions called are the real ones.

pub(crate) fn convert_outstation_config(
    config: crate::ffi::OutstationConfig,
) -> Result<dnp3::outstation::OutstationConfig, crate::ffi::ParamError> {
    super::convert_outstation_config(config)
}

pub(crate) unsafe fn convert_udp_config(
    config: crate::ffi::OutstationUdpConfig,
) -> Result<dnp3::udp::OutstationUdpConfig, crate::ffi::ParamError> {
    super::convert_udp_config(config)
}
