// Engine `outstation`: the real OutstationTask (session + database) over the mock transport, driven
// by a script of application fragments, clock advances, database updates and disconnects.
//
// Every observable effect is recorded in ONE ordered, time-stamped trace (hook H5,
// crate::util::verif_trace): fragments handed to the transport writer (`tx`), the session's calls
// into the database (`db ...`, each followed by a line `> ...` with what the database answered),
// and the callbacks received by the scripted ControlHandler / OutstationApplication /
// OutstationInformation of this file (`cb ...`, `info ...`).  Lines starting with `>` are the
// answers of the session's environment; they (and the `> digest` of each received fragment, made
// with the real parser) are the oracle inputs of the session model, everything else is predicted by
// the model and compared.

use super::{decode_level, hex, unhex, Script};
use crate::app::attr::Attribute;
use crate::app::control::*;
use crate::app::gen::all::AllObjectsVariation;
use crate::app::gen::count::CountVariation;
use crate::app::gen::prefixed::PrefixedVariation;
use crate::app::gen::ranged::RangedVariation;
use crate::app::measurement::*;
use crate::app::parse::options::ParseOptions;
use crate::app::parse::parser::{HeaderDetails, ParsedFragment};
use crate::app::parse::traits::FixedSizeVariation;
use crate::app::*;
use crate::link::header::{BroadcastConfirmMode, FrameInfo, FrameType};
use crate::link::reader::LinkModes;
use crate::link::EndpointAddress;

use crate::outstation::database::*;
use crate::outstation::task::OutstationTask;
use crate::outstation::*;
use crate::transport::mock::reader::verif_hook;
use crate::util::phys::{PhysAddr, PhysLayer};
use crate::util::session::Enabled;
use crate::util::verif_trace as vt;
use std::sync::{Arc, Mutex};
use std::time::Duration;

#[derive(Clone)]
struct Knobs {
    select_status: u8,
    operate_status: u8,
    app_iin: u8,
    delay_ms: u16,
    cold: Option<RestartDelay>,
    warm: Option<RestartDelay>,
    wtime: u8,  // 0 ok, 1 not supported, 2 parameter error
    freeze: u8, // same
}

type Shared = Arc<Mutex<Knobs>>;

fn obj_hex<T: FixedSizeVariation>(v: &T) -> String {
    let mut buf = [0u8; 64];
    let mut cursor = scursor::WriteCursor::new(&mut buf);
    v.write(&mut cursor).unwrap();
    hex(cursor.written())
}

struct Handler(Shared);

fn op_text(t: OperateType) -> &'static str {
    match t {
        OperateType::SelectBeforeOperate => "sbo",
        OperateType::DirectOperate => "do",
        OperateType::DirectOperateNoAck => "donr",
    }
}

macro_rules! control_support {
    ($t:ty, $name:expr) => {
        impl ControlSupport<$t> for Handler {
            fn select(
                &mut self,
                control: $t,
                index: u16,
                _db: &mut DatabaseHandle,
            ) -> CommandStatus {
                let st = self.0.lock().unwrap().select_status;
                vt::log(format!(
                    "cb select {} {} {}",
                    $name,
                    index,
                    obj_hex(&control)
                ));
                CommandStatus::from(st)
            }
            fn operate(
                &mut self,
                control: $t,
                index: u16,
                op_type: OperateType,
                _db: &mut DatabaseHandle,
            ) -> CommandStatus {
                let st = self.0.lock().unwrap().operate_status;
                vt::log(format!(
                    "cb operate {} {} {} {}",
                    $name,
                    index,
                    op_text(op_type),
                    obj_hex(&control)
                ));
                CommandStatus::from(st)
            }
        }
    };
}

control_support!(Group12Var1, "g12v1");
control_support!(Group41Var1, "g41v1");
control_support!(Group41Var2, "g41v2");
control_support!(Group41Var3, "g41v3");
control_support!(Group41Var4, "g41v4");

impl ControlHandler for Handler {
    fn begin_fragment(&mut self) {
        vt::log("cb begin_fragment".to_string());
    }
    fn end_fragment(&mut self, _database: &mut DatabaseHandle) -> MaybeAsync<()> {
        vt::log("cb end_fragment".to_string());
        MaybeAsync::ready(())
    }
}

struct App(Shared);

fn req_result(code: u8) -> Result<(), RequestError> {
    match code {
        0 => Ok(()),
        1 => Err(RequestError::NotSupported),
        _ => Err(RequestError::ParameterError),
    }
}

impl OutstationApplication for App {
    fn get_processing_delay_ms(&self) -> u16 {
        self.0.lock().unwrap().delay_ms
    }
    fn write_absolute_time(&mut self, time: Timestamp) -> Result<(), RequestError> {
        vt::log(format!("cb write_time {}", time.raw_value()));
        req_result(self.0.lock().unwrap().wtime)
    }
    fn get_application_iin(&self) -> ApplicationIin {
        let b = self.0.lock().unwrap().app_iin;
        ApplicationIin {
            need_time: b & 1 != 0,
            local_control: b & 2 != 0,
            device_trouble: b & 4 != 0,
            config_corrupt: b & 8 != 0,
        }
    }
    fn cold_restart(&mut self) -> Option<RestartDelay> {
        vt::log("cb cold_restart".to_string());
        self.0.lock().unwrap().cold
    }
    fn warm_restart(&mut self) -> Option<RestartDelay> {
        vt::log("cb warm_restart".to_string());
        self.0.lock().unwrap().warm
    }
    fn freeze_counter(
        &mut self,
        indices: FreezeIndices,
        freeze_type: FreezeType,
        _database: &mut DatabaseHandle,
    ) -> Result<(), RequestError> {
        let i = match indices {
            FreezeIndices::All => "all".to_string(),
            FreezeIndices::Range(a, b) => format!("{}:{}", a, b),
        };
        let t = match freeze_type {
            FreezeType::ImmediateFreeze => "imm".to_string(),
            FreezeType::FreezeAndClear => "clear".to_string(),
            FreezeType::FreezeAtTime(x) => {
                let (t, i) = x.get_time_and_interval();
                format!("at:{}:{}", t.raw_value(), i)
            }
        };
        vt::log(format!("cb freeze {} {}", i, t));
        req_result(self.0.lock().unwrap().freeze)
    }
    fn write_device_attr(&mut self, _attr: Attribute) -> MaybeAsync<bool> {
        vt::log("cb write_attr".to_string());
        MaybeAsync::ready(true)
    }
    fn begin_confirm(&mut self) {
        vt::log("> cb begin_confirm".to_string());
    }
    fn event_cleared(&mut self, id: u64) {
        vt::log(format!("> cb event_cleared {}", id));
    }
    fn end_confirm(&mut self, state: BufferState) -> MaybeAsync<()> {
        vt::log(format!(
            "> cb end_confirm {} {} {}",
            state.classes.num_class_1, state.classes.num_class_2, state.classes.num_class_3
        ));
        MaybeAsync::ready(())
    }
}

struct Info;

impl OutstationInformation for Info {
    fn process_request_from_idle(&mut self, header: RequestHeader) {
        vt::log(format!(
            "info idle_request {} {}",
            header.function.as_u8(),
            header.control.seq.value()
        ));
    }
    fn broadcast_received(&mut self, function: FunctionCode, action: BroadcastAction) {
        let a = match action {
            BroadcastAction::Processed => "processed".to_string(),
            BroadcastAction::IgnoredByConfiguration => "ignored".to_string(),
            BroadcastAction::BadObjectHeaders => "badobj".to_string(),
            BroadcastAction::UnsupportedFunction(f) => format!("unsupported:{}", f.as_u8()),
        };
        vt::log(format!("info broadcast {} {}", function.as_u8(), a));
    }
    fn enter_solicited_confirm_wait(&mut self, ecsn: Sequence) {
        vt::log(format!("info enter_sol_wait {}", ecsn.value()));
    }
    fn solicited_confirm_timeout(&mut self, ecsn: Sequence) {
        vt::log(format!("info sol_timeout {}", ecsn.value()));
    }
    fn solicited_confirm_received(&mut self, ecsn: Sequence) {
        vt::log(format!("info sol_confirmed {}", ecsn.value()));
    }
    fn solicited_confirm_wait_new_request(&mut self) {
        vt::log("info sol_new_request".to_string());
    }
    fn wrong_solicited_confirm_seq(&mut self, ecsn: Sequence, seq: Sequence) {
        vt::log(format!(
            "info sol_wrong_seq {} {}",
            ecsn.value(),
            seq.value()
        ));
    }
    fn unexpected_confirm(&mut self, unsolicited: bool, seq: Sequence) {
        vt::log(format!(
            "info unexpected_confirm {} {}",
            unsolicited as u8,
            seq.value()
        ));
    }
    fn enter_unsolicited_confirm_wait(&mut self, ecsn: Sequence) {
        vt::log(format!("info enter_unsol_wait {}", ecsn.value()));
    }
    fn unsolicited_confirm_timeout(&mut self, ecsn: Sequence, retry: bool) {
        vt::log(format!(
            "info unsol_timeout {} {}",
            ecsn.value(),
            retry as u8
        ));
    }
    fn unsolicited_confirmed(&mut self, ecsn: Sequence) {
        vt::log(format!("info unsol_confirmed {}", ecsn.value()));
    }
    fn clear_restart_iin(&mut self) {
        vt::log("info clear_restart_iin".to_string());
    }
}

fn bcast(s: &str) -> Option<BroadcastConfirmMode> {
    match s {
        "none" => None,
        "opt" => Some(BroadcastConfirmMode::Optional),
        "mand" => Some(BroadcastConfirmMode::Mandatory),
        "notreq" => Some(BroadcastConfirmMode::NotRequired),
        x => panic!("bad broadcast mode {}", x),
    }
}

fn restart_delay(s: &str) -> Option<RestartDelay> {
    if s == "none" {
        return None;
    }
    let (k, v) = s.split_once(':').expect("bad restart delay");
    let v = v.parse::<u16>().unwrap();
    match k {
        "s" => Some(RestartDelay::Seconds(v)),
        "ms" => Some(RestartDelay::Milliseconds(v)),
        _ => panic!("bad restart delay"),
    }
}

fn feature(script: &Script, key: &str, default: u64) -> Feature {
    if script.cfg_u64(key, default) != 0 {
        Feature::Enabled
    } else {
        Feature::Disabled
    }
}

fn class_of(s: &str) -> Option<EventClass> {
    match s {
        "0" => None,
        "1" => Some(EventClass::Class1),
        "2" => Some(EventClass::Class2),
        "3" => Some(EventClass::Class3),
        x => panic!("bad class {}", x),
    }
}

/// what the session will learn about a received fragment from the real parser
fn digest(bytes: &[u8]) -> String {
    let parsed = match ParsedFragment::parse(ParseOptions::get_static(), bytes) {
        Err(HeaderParseError::InsufficientBytes) => return "hp=insuf".to_string(),
        Err(HeaderParseError::UnknownFunction(seq, code)) => {
            return format!("hp=unkfn:{}:{}", seq.value(), code)
        }
        Ok(x) => x,
    };
    let mut out = format!("hp=ok ctl={} fn={}", bytes[0], parsed.function.as_u8());
    let rv = match parsed.to_request() {
        Ok(_) => "ok",
        Err(RequestValidationError::UnexpectedFunction(_)) => "unexpfn",
        Err(RequestValidationError::NonFirFin) => "nonfirfin",
        Err(RequestValidationError::UnexpectedUnsBit(_)) => "unexpuns",
    };
    out.push_str(&format!(" rv={}", rv));
    match parsed.objects {
        Err(err) => {
            let iin2: Iin2 = err.into();
            out.push_str(&format!(" obj=err:{}", iin2.value));
        }
        Ok(headers) => {
            out.push_str(" obj=ok");
            let mut rh = String::new();
            for h in headers.iter() {
                rh.push(
                    if crate::outstation::database::read::ReadHeader::get(&h).is_some() {
                        '1'
                    } else {
                        '0'
                    },
                );
                let tok = match h.details {
                    HeaderDetails::OneByteStartStop(_, _, RangedVariation::Group80Var1(bits)) => {
                        let items: Vec<String> = bits
                            .iter()
                            .map(|(v, i)| format!("{}={}", i, v as u8))
                            .collect();
                        format!(
                            "iin:{}",
                            if items.is_empty() {
                                "-".to_string()
                            } else {
                                items.join(",")
                            }
                        )
                    }
                    HeaderDetails::OneByteCount(_, CountVariation::Group50Var1(seq)) => {
                        match seq.single() {
                            Some(v) => format!("abstime:{}", v.time.raw_value()),
                            None => "abstime:none".to_string(),
                        }
                    }
                    HeaderDetails::OneByteCount(_, CountVariation::Group50Var3(seq)) => {
                        match seq.single() {
                            Some(v) => format!("lrtime:{}", v.time.raw_value()),
                            None => "lrtime:none".to_string(),
                        }
                    }
                    HeaderDetails::AllObjects(AllObjectsVariation::Group60Var2) => {
                        "cls:1".to_string()
                    }
                    HeaderDetails::AllObjects(AllObjectsVariation::Group60Var3) => {
                        "cls:2".to_string()
                    }
                    HeaderDetails::AllObjects(AllObjectsVariation::Group60Var4) => {
                        "cls:3".to_string()
                    }
                    HeaderDetails::AllObjects(AllObjectsVariation::Group20Var0) => {
                        "frz:all".to_string()
                    }
                    HeaderDetails::OneByteStartStop(a, b, RangedVariation::Group20Var0) => {
                        format!("frz:{}:{}", a, b)
                    }
                    HeaderDetails::TwoByteStartStop(a, b, RangedVariation::Group20Var0) => {
                        format!("frz:{}:{}", a, b)
                    }
                    HeaderDetails::OneByteCount(_, CountVariation::Group50Var2(seq)) => {
                        match seq.single() {
                            Some(v) => format!("ft:{}:{}", v.time.raw_value(), v.interval),
                            None => "ft:none".to_string(),
                        }
                    }
                    HeaderDetails::TwoByteCount(_, CountVariation::Group50Var2(seq)) => {
                        match seq.single() {
                            Some(v) => format!("ft:{}:{}", v.time.raw_value(), v.interval),
                            None => "ft:none".to_string(),
                        }
                    }
                    HeaderDetails::OneByteStartStop(_, _, RangedVariation::Group0(_, Some(_))) => {
                        "attr".to_string()
                    }
                    HeaderDetails::TwoByteStartStop(_, _, RangedVariation::Group0(_, Some(_))) => {
                        "attr".to_string()
                    }
                    HeaderDetails::OneByteCountAndPrefix(_, PrefixedVariation::Group34Var1(_))
                    | HeaderDetails::OneByteCountAndPrefix(_, PrefixedVariation::Group34Var2(_))
                    | HeaderDetails::OneByteCountAndPrefix(_, PrefixedVariation::Group34Var3(_))
                    | HeaderDetails::TwoByteCountAndPrefix(_, PrefixedVariation::Group34Var1(_))
                    | HeaderDetails::TwoByteCountAndPrefix(_, PrefixedVariation::Group34Var2(_))
                    | HeaderDetails::TwoByteCountAndPrefix(_, PrefixedVariation::Group34Var3(_)) => {
                        "db34".to_string()
                    }
                    _ => match h.to_control_header() {
                        Ok(_) => control_token(&h.details),
                        Err(_) => "other".to_string(),
                    },
                };
                out.push_str(" H");
                out.push_str(&tok);
            }
            out.push_str(&format!(
                " rh={}",
                if rh.is_empty() { "-".to_string() } else { rh }
            ));
        }
    }
    out
}

fn items<I, V>(
    seq: &crate::app::parse::count::CountSequence<crate::app::parse::prefix::Prefix<I, V>>,
) -> String
where
    I: crate::app::parse::traits::Index,
    V: FixedSizeVariation,
{
    let v: Vec<String> = seq
        .iter()
        .map(|x| format!("{}={}", x.index.widen_to_u16(), obj_hex(&x.value)))
        .collect();
    if v.is_empty() {
        "-".to_string()
    } else {
        v.join(",")
    }
}

fn control_token(d: &HeaderDetails) -> String {
    match d {
        HeaderDetails::OneByteCountAndPrefix(_, PrefixedVariation::Group12Var1(s)) => {
            format!("ctl:12:1:1:{}", items(s))
        }
        HeaderDetails::OneByteCountAndPrefix(_, PrefixedVariation::Group41Var1(s)) => {
            format!("ctl:41:1:1:{}", items(s))
        }
        HeaderDetails::OneByteCountAndPrefix(_, PrefixedVariation::Group41Var2(s)) => {
            format!("ctl:41:2:1:{}", items(s))
        }
        HeaderDetails::OneByteCountAndPrefix(_, PrefixedVariation::Group41Var3(s)) => {
            format!("ctl:41:3:1:{}", items(s))
        }
        HeaderDetails::OneByteCountAndPrefix(_, PrefixedVariation::Group41Var4(s)) => {
            format!("ctl:41:4:1:{}", items(s))
        }
        HeaderDetails::TwoByteCountAndPrefix(_, PrefixedVariation::Group12Var1(s)) => {
            format!("ctl:12:1:2:{}", items(s))
        }
        HeaderDetails::TwoByteCountAndPrefix(_, PrefixedVariation::Group41Var1(s)) => {
            format!("ctl:41:1:2:{}", items(s))
        }
        HeaderDetails::TwoByteCountAndPrefix(_, PrefixedVariation::Group41Var2(s)) => {
            format!("ctl:41:2:2:{}", items(s))
        }
        HeaderDetails::TwoByteCountAndPrefix(_, PrefixedVariation::Group41Var3(s)) => {
            format!("ctl:41:3:2:{}", items(s))
        }
        HeaderDetails::TwoByteCountAndPrefix(_, PrefixedVariation::Group41Var4(s)) => {
            format!("ctl:41:4:2:{}", items(s))
        }
        _ => "other".to_string(),
    }
}

/// does the library's own parser accept a transmitted fragment as a response, consuming every
/// object header?  (C12: every transmitted fragment parses cleanly)
fn tx_verdict(bytes: &[u8]) -> &'static str {
    match ParsedFragment::parse(ParseOptions::get_static(), bytes) {
        Err(_) => "header-error",
        Ok(f) => match f.to_response() {
            Err(_) => "not-a-response",
            Ok(r) => match r.objects {
                Err(_) => "object-error",
                Ok(headers) => {
                    let mut n = 0usize;
                    for _h in headers.iter() {
                        n += 1;
                    }
                    std::hint::black_box(n);
                    "ok"
                }
            },
        },
    }
}

fn flush(obs: &mut Vec<String>) {
    for l in vt::drain() {
        let verdict = {
            let t: Vec<&str> = l.split_whitespace().collect();
            if t.len() == 4 && t[1] == "tx" {
                Some(format!("{} > txparse {}", t[0], tx_verdict(&unhex(t[3]))))
            } else {
                None
            }
        };
        obs.push(l);
        if let Some(v) = verdict {
            obs.push(v);
        }
    }
}

async fn drain_ready() {
    // let every task that became ready at this instant run before the trace is flushed
    for _ in 0..8 {
        tokio::task::yield_now().await;
    }
}

async fn settle() {
    tokio::time::sleep(Duration::from_millis(1)).await;
    drain_ready().await;
}

pub(crate) async fn run_outstation(script: &Script, obs: &mut Vec<String>) {
    let master = script.cfg_u64("master", 1) as u16;
    let mut config = OutstationConfig::new(
        EndpointAddress::raw(script.cfg_u64("addr", 1024) as u16),
        EndpointAddress::raw(master),
        EventBufferConfig::all_types(script.cfg_u64("evbuf", 5) as u16),
    );
    config.decode_level = decode_level(script);
    config.solicited_buffer_size = BufferSize::new(script.cfg_u64("soltx", 2048) as usize).unwrap();
    config.unsolicited_buffer_size =
        BufferSize::new(script.cfg_u64("unsoltx", 2048) as usize).unwrap();
    config.rx_buffer_size = BufferSize::new(script.cfg_u64("rx", 2048) as usize).unwrap();
    config.confirm_timeout = Timeout::from_millis(script.cfg_u64("confirm_ms", 5000)).unwrap();
    config.select_timeout = Timeout::from_millis(script.cfg_u64("select_ms", 5000)).unwrap();
    config.features.unsolicited = feature(script, "unsol", 0);
    config.features.broadcast = feature(script, "broadcast", 1);
    config.features.respond_to_any_master = feature(script, "anymaster", 0);
    config.max_unsolicited_retries = match script.cfg_str("retries", "none").as_str() {
        "none" => None,
        x => Some(x.parse::<usize>().unwrap()),
    };
    config.unsolicited_retry_delay = Duration::from_millis(script.cfg_u64("retry_delay_ms", 5000));
    config.keep_alive_timeout = match script.cfg_u64("keepalive_ms", 0) {
        0 => None,
        x => Some(Duration::from_millis(x)),
    };
    config.max_controls_per_request = match script.cfg_u64("maxctl", 0) {
        0 => None,
        x => Some(x as u16),
    };

    let knobs: Shared = Arc::new(Mutex::new(Knobs {
        select_status: script.cfg_u64("sel", 0) as u8,
        operate_status: script.cfg_u64("op", 0) as u8,
        app_iin: script.cfg_u64("appiin", 0) as u8,
        delay_ms: script.cfg_u64("delay", 0) as u16,
        cold: restart_delay(&script.cfg_str("cold", "none")),
        warm: restart_delay(&script.cfg_str("warm", "none")),
        wtime: script.cfg_u64("wtime", 0) as u8,
        freeze: script.cfg_u64("freeze", 1) as u8,
    }));

    let (task, mut handle) = OutstationTask::create(
        Enabled::Yes,
        LinkModes::test(),
        ParseOptions::get_static(),
        config,
        PhysAddr::None,
        Box::new(App(knobs.clone())),
        Box::new(Info),
        Box::new(Handler(knobs.clone())),
    );
    let mut task = Box::new(task);
    task.get_reader()
        .get_inner()
        .set_rx_frame_info(FrameInfo::new(
            EndpointAddress::raw(master),
            None,
            FrameType::Data,
            PhysAddr::None,
        ));
    verif_hook::clear();

    // the task owns its io; a new mock is created for every session and its handle passed back
    let (io_tx, mut io_rx) = tokio::sync::mpsc::unbounded_channel::<sfio_tokio_mock_io::Handle>();
    let runner = tokio::task::spawn_local(async move {
        loop {
            let (mock, h) = sfio_tokio_mock_io::mock();
            if io_tx.send(h).is_err() {
                return;
            }
            let mut io = PhysLayer::Mock(mock);
            let err = task.run(&mut io).await;
            vt::log(format!("session-end {:?}", err).replace(' ', "_"));
            // consume anything still queued so that dropping the mock does not panic
            if let PhysLayer::Mock(_) = io {
                std::mem::forget(io);
            }
            match err {
                crate::util::session::RunError::Stop(
                    crate::util::session::StopReason::Shutdown,
                ) => return,
                // disabled by the user: like the TCP server task, process messages until enabled again
                crate::util::session::RunError::Stop(crate::util::session::StopReason::Disable) => {
                    while task.enabled() != Enabled::Yes {
                        if task.process_next_message().await.is_err() {
                            return;
                        }
                    }
                }
                crate::util::session::RunError::Link(_) => {}
            }
        }
    });

    vt::start();
    let mut io = io_rx.recv().await.unwrap();

    for op in &script.ops {
        vt::log(format!("op {}", op.join(" ")));
        match op[0].as_str() {
            "rx" => {
                let from = EndpointAddress::raw(op[1].parse::<u16>().unwrap());
                let bytes = unhex(&op[3]);
                vt::log(format!("> digest {}", digest(&bytes)));
                verif_hook::push_frame_info(FrameInfo::new(
                    from,
                    bcast(&op[2]),
                    FrameType::Data,
                    PhysAddr::None,
                ));
                io.read(&bytes);
                settle().await;
            }
            "sleep" => {
                tokio::time::sleep(Duration::from_millis(op[1].parse::<u64>().unwrap())).await;
                drain_ready().await;
            }
            "add" => {
                let index = op[2].parse::<u16>().unwrap();
                let class = class_of(&op[3]);
                let ok = handle.transaction(|db| match op[1].as_str() {
                    "binary" => db.add(index, class, BinaryInputConfig::default()),
                    "double" => db.add(index, class, DoubleBitBinaryInputConfig::default()),
                    "bos" => db.add(index, class, BinaryOutputStatusConfig::default()),
                    "counter" => db.add(index, class, CounterConfig::default()),
                    "frozen" => db.add(index, class, FrozenCounterConfig::default()),
                    "analog" => db.add(index, class, AnalogInputConfig::default()),
                    "aos" => db.add(index, class, AnalogOutputStatusConfig::default()),
                    "octet" => db.add(index, class, OctetStringConfig),
                    x => panic!("bad type {}", x),
                });
                vt::log(format!("> added {}", ok as u8));
                settle().await;
            }
            "update" => {
                let index = op[2].parse::<u16>().unwrap();
                let flags = Flags::new(op[4].parse::<u8>().unwrap());
                let time = Time::Synchronized(Timestamp::new(op[5].parse::<u64>().unwrap()));
                let opts = UpdateOptions::detect_event();
                let ok = handle.transaction(|db| match op[1].as_str() {
                    "binary" => {
                        db.update(index, &BinaryInput::new(op[3] != "0", flags, time), opts)
                    }
                    "counter" => db.update(
                        index,
                        &Counter::new(op[3].parse::<u32>().unwrap(), flags, time),
                        opts,
                    ),
                    "analog" => db.update(
                        index,
                        &AnalogInput::new(op[3].parse::<f64>().unwrap(), flags, time),
                        opts,
                    ),
                    "octet" => db.update(index, &OctetString::new(&unhex(&op[3])).unwrap(), opts),
                    x => panic!("bad type {}", x),
                });
                vt::log(format!("> updated {}", ok as u8));
                settle().await;
            }
            "handler" => {
                let mut k = knobs.lock().unwrap();
                k.select_status = op[1].parse::<u8>().unwrap();
                k.operate_status = op[2].parse::<u8>().unwrap();
            }
            "appiin" => {
                knobs.lock().unwrap().app_iin = op[1].parse::<u8>().unwrap();
            }
            "disconnect" => {
                io.read_error(std::io::ErrorKind::ConnectionReset);
                settle().await;
                io = io_rx.recv().await.unwrap();
            }
            // the user disables and re-enables the outstation: the session ends without a link error and a new
            // one starts on a new connection (seeded change C04_c)
            "bounce" => {
                handle.disable().await.unwrap();
                drain_ready().await;
                handle.enable().await.unwrap();
                std::mem::forget(io);
                settle().await;
                io = io_rx.recv().await.unwrap();
            }
            x => panic!("bad op {}", x),
        }
        flush(obs);
    }
    vt::log("end".to_string());
    flush(obs);
    vt::stop();
    runner.abort();
    let _ = runner.await;
    std::mem::forget(io);
}
