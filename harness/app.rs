// Engine `app` (C09, also used by C10/C01): the PRODUCTION application-layer codec.
//
//   parse <req|resp> <hex>      ParsedFragment::parse with the real ParseOptions, header validation
//                               (to_request / to_response), then EVERY object header is iterated and a
//                               canonical listing is printed
//   display <level> <hex>       runs the Display/format paths at the given decode level (panic hunting)
//   encode <builder> ...        the master's request builders (master/request.rs + app/format/write.rs); prints
//                               `bytes <hex>`, then the listing of `parse` applied to those bytes
//   dbwrite <budget> <point>... the outstation's RangeWriter / EventWriter, which live in the private module
//                               outstation::database::details and are reached through the production Database:
//                               points are added, updated (one forced event each when they have a class), classes
//                               1, 2, 3 and 0 are selected and the response object headers are written; prints
//                               `bytes <hex>` (behind a response header) and the listing of `parse`.  Not modelled
//                               here (the `db` engine models the writers): checked by the oracle only.
//
// Canonical listing (decimal numbers, lowercase hex, `-` = empty / absent):
//   frag <function> <fir><fin><con><uns> <seq> <iin1> <iin2>     | hdr-err insufficient | hdr-err unknown-function <seq> <code>
//   req ok | req err <kind>        resp ok | resp err <kind>
//   obj-err <kind> [args]          (the validating first pass failed: no header is listed)
//   h <group> <var> <qualifier> [start stop | count]
//   n <objects>                    number of objects the iterator yielded
//   o <index|-> <hex>              one object: its index and its encoding (T::write of what T::read produced;
//                                  bits and double bits as one byte 00/01 and 00..03)
//                                  with more than LIST_LIMIT objects only the first and last EDGE are listed,
//                                  followed by `sum <checksum over all objects>`
//   a <set> <var> <type> <value>   device attribute;   f <var> <lengths...>   free-format object
//   end

use super::{hex, unhex, Script};
use crate::app::attr::{AttrParseError, AttrValue, Attribute, FloatType};
use crate::app::format::write::{start_request, HeaderWriter};
use crate::app::gen::count::CountVariation;
use crate::app::gen::prefixed::PrefixedVariation;
use crate::app::gen::ranged::RangedVariation;
use crate::app::parse::bit::{BitSequence, DoubleBitSequence};
use crate::app::parse::bytes::{PrefixedBytesSequence, RangedBytesSequence};
use crate::app::parse::count::CountSequence;
use crate::app::parse::free_format::FreeFormatVariation;
use crate::app::parse::options::ParseOptions;
use crate::app::parse::parser::{HeaderDetails, ObjectHeader, ParsedFragment};
use crate::app::parse::prefix::Prefix;
use crate::app::parse::range::RangedSequence;
use crate::app::parse::traits::{FixedSize, FixedSizeVariation, Index};
use crate::app::variations::*;
use crate::app::{
    ControlField, FunctionCode, HeaderParseError, ObjectParseError, RequestValidationError,
    ResponseValidationError, Sequence,
};
use crate::decode::AppDecodeLevel;
use scursor::{ReadCursor, WriteCursor};

const LIST_LIMIT: usize = 300;
const EDGE: usize = 4;
const SUM_MOD: u64 = 4294967291;

type Obj = (Option<u16>, Vec<u8>);

fn enc<T: FixedSize>(x: &T) -> Vec<u8> {
    let mut buf = [0u8; 300];
    let mut cursor = WriteCursor::new(&mut buf);
    x.write(&mut cursor).expect("object larger than 300 bytes");
    cursor.written().to_vec()
}

fn ranged<T: FixedSize>(seq: &RangedSequence<T>) -> Vec<Obj> {
    seq.iter().map(|(v, i)| (Some(i), enc(&v))).collect()
}

fn counted<T: FixedSize>(seq: &CountSequence<T>) -> Vec<Obj> {
    seq.iter().map(|v| (None, enc(&v))).collect()
}

fn prefixed<I: Index, V: FixedSizeVariation>(seq: &CountSequence<Prefix<I, V>>) -> Vec<Obj> {
    seq.iter()
        .map(|p| (Some(p.index.widen_to_u16()), enc(&p.value)))
        .collect()
}

fn bits(seq: &BitSequence) -> Vec<Obj> {
    seq.iter().map(|(v, i)| (Some(i), vec![v as u8])).collect()
}

fn dbits(seq: &DoubleBitSequence) -> Vec<Obj> {
    seq.iter()
        .map(|(v, i)| (Some(i), vec![v.to_byte()]))
        .collect()
}

fn rbytes(seq: &RangedBytesSequence) -> Vec<Obj> {
    seq.iter().map(|(b, i)| (Some(i), b.to_vec())).collect()
}

fn pbytes<I: Index>(seq: &PrefixedBytesSequence<I>) -> Vec<Obj> {
    seq.iter()
        .map(|(b, i)| (Some(i.widen_to_u16()), b.to_vec()))
        .collect()
}

fn checksum(objs: &[Obj]) -> u64 {
    let mut h: u64 = 0;
    for (idx, data) in objs {
        let i = match idx {
            Some(i) => *i as u64 + 1,
            None => 0,
        };
        h = (h * 31 + i) % SUM_MOD;
        for b in data {
            h = (h * 31 + *b as u64 + 1) % SUM_MOD;
        }
    }
    h
}

fn list_objs(objs: &[Obj], obs: &mut Vec<String>) {
    obs.push(format!("n {}", objs.len()));
    let line = |o: &Obj| match o.0 {
        Some(i) => format!("o {} {}", i, hex(&o.1)),
        None => format!("o - {}", hex(&o.1)),
    };
    if objs.len() <= LIST_LIMIT {
        for o in objs {
            obs.push(line(o));
        }
    } else {
        for o in &objs[..EDGE] {
            obs.push(line(o));
        }
        for o in &objs[objs.len() - EDGE..] {
            obs.push(line(o));
        }
        obs.push(format!("sum {}", checksum(objs)));
    }
}

fn attr_err(e: &AttrParseError) -> String {
    match e {
        AttrParseError::ReadError => "read".to_string(),
        AttrParseError::UnknownDataType(x) => format!("unknown-type {}", x),
        AttrParseError::BadIntegerLength(x) => format!("int-length {}", x),
        AttrParseError::BadFloatLength(x) => format!("float-length {}", x),
        AttrParseError::BadTimeLength(x) => format!("time-length {}", x),
        AttrParseError::BadAttrListLength(x) => format!("list-length {}", x),
        AttrParseError::BadVisibleString(_) => "vstr".to_string(),
        AttrParseError::SetIdNotU8(x) => format!("set-id {}", x),
        AttrParseError::CountNotOne(x) => format!("count {}", x),
    }
}

pub(crate) fn obj_err(e: &ObjectParseError) -> String {
    match e {
        ObjectParseError::UnknownGroupVariation(g, v) => format!("unknown-gv {} {}", g, v),
        ObjectParseError::UnknownQualifier(q) => format!("unknown-qual {}", q),
        ObjectParseError::InsufficientBytes => "insufficient".to_string(),
        ObjectParseError::InvalidRange(a, b) => format!("invalid-range {} {}", a, b),
        ObjectParseError::InvalidQualifierForVariation(v, q) => {
            let (g, var) = v.to_group_and_var();
            format!("invalid-qual {} {} {}", g, var, q.as_u8())
        }
        ObjectParseError::UnsupportedQualifierCode(q) => format!("unsupported-qual {}", q.as_u8()),
        ObjectParseError::UnsupportedFreeFormatCount(c) => format!("free-count {}", c),
        ObjectParseError::ZeroLengthOctetData => "zero-length".to_string(),
        ObjectParseError::BadAttribute(e) => format!("bad-attr {}", attr_err(e)),
        ObjectParseError::BadEncoding => "bad-encoding".to_string(),
    }
}

fn list_attr(a: &Attribute, obs: &mut Vec<String>) {
    let value = match &a.value {
        AttrValue::VisibleString(s) => format!("vstr {}", hex(s.as_bytes())),
        AttrValue::UnsignedInt(x) => format!("uint {}", x),
        AttrValue::SignedInt(x) => format!("int {}", *x as u32),
        AttrValue::FloatingPoint(FloatType::F32(x)) => format!("f32 {}", x.to_bits()),
        AttrValue::FloatingPoint(FloatType::F64(x)) => format!("f64 {}", x.to_bits()),
        AttrValue::OctetString(b) => format!("ostr {}", hex(b)),
        AttrValue::BitString(b) => format!("bstr {}", hex(b)),
        AttrValue::Dnp3Time(t) => format!("time {}", t.raw_value()),
        AttrValue::AttrList(l) => {
            let items: Vec<u8> = l
                .iter()
                .flat_map(|x| [x.variation, x.properties.is_writable() as u8])
                .collect();
            format!("list {}", hex(&items))
        }
    };
    obs.push(format!("a {} {} {}", a.set.value(), a.variation, value));
}

fn list_free(v: &FreeFormatVariation, obs: &mut Vec<String>) {
    obs.push(match v {
        FreeFormatVariation::Group70Var2(x) => {
            format!("f 2 {} {}", x.user_name.len(), x.password.len())
        }
        FreeFormatVariation::Group70Var3(x) => format!("f 3 {}", x.file_name.len()),
        FreeFormatVariation::Group70Var4(x) => format!("f 4 {}", x.text.len()),
        FreeFormatVariation::Group70Var5(x) => format!("f 5 {}", x.file_data.len()),
        FreeFormatVariation::Group70Var6(x) => format!("f 6 {}", x.text.len()),
        FreeFormatVariation::Group70Var7(x) => format!("f 7 {}", x.file_name.len()),
        FreeFormatVariation::Group70Var8(x) => format!("f 8 {}", x.file_specification.len()),
    });
}

macro_rules! ranged_fixed {
    ($x:expr, $obs:expr; $($v:ident),*) => {
        match $x {
            RangedVariation::Group0(_, Some(a)) => list_attr(a, $obs),
            RangedVariation::Group1Var1(s) | RangedVariation::Group10Var1(s) | RangedVariation::Group80Var1(s) => list_objs(&bits(s), $obs),
            RangedVariation::Group3Var1(s) => list_objs(&dbits(s), $obs),
            RangedVariation::Group110VarX(_, s) => list_objs(&rbytes(s), $obs),
            $(RangedVariation::$v(s) => list_objs(&ranged(s), $obs),)*
            RangedVariation::Group0Var254 | RangedVariation::Group0(_, None)
            | RangedVariation::Group1Var0 | RangedVariation::Group3Var0 | RangedVariation::Group10Var0
            | RangedVariation::Group20Var0 | RangedVariation::Group21Var0 | RangedVariation::Group30Var0
            | RangedVariation::Group31Var0 | RangedVariation::Group40Var0 | RangedVariation::Group102Var0
            | RangedVariation::Group110Var0 => list_objs(&[], $obs),
        }
    };
}

fn list_ranged(x: &RangedVariation, obs: &mut Vec<String>) {
    ranged_fixed!(x, obs;
        Group1Var2, Group3Var2, Group10Var2, Group20Var1, Group20Var2, Group20Var5, Group20Var6,
        Group21Var1, Group21Var2, Group21Var5, Group21Var6, Group21Var9, Group21Var10,
        Group30Var1, Group30Var2, Group30Var3, Group30Var4, Group30Var5, Group30Var6,
        Group31Var1, Group31Var2, Group31Var3, Group31Var4, Group31Var5, Group31Var6, Group31Var7, Group31Var8,
        Group34Var1, Group34Var2, Group34Var3, Group40Var1, Group40Var2, Group40Var3, Group40Var4,
        Group102Var1);
}

fn list_count(x: &CountVariation, obs: &mut Vec<String>) {
    match x {
        CountVariation::Group50Var1(s) => list_objs(&counted(s), obs),
        CountVariation::Group50Var2(s) => list_objs(&counted(s), obs),
        CountVariation::Group50Var3(s) => list_objs(&counted(s), obs),
        CountVariation::Group50Var4(s) => list_objs(&counted(s), obs),
        CountVariation::Group51Var1(s) => list_objs(&counted(s), obs),
        CountVariation::Group51Var2(s) => list_objs(&counted(s), obs),
        CountVariation::Group52Var1(s) => list_objs(&counted(s), obs),
        CountVariation::Group52Var2(s) => list_objs(&counted(s), obs),
        // every other count variation carries no object data
        _ => list_objs(&[], obs),
    }
}

macro_rules! prefixed_fixed {
    ($x:expr, $obs:expr; $($v:ident),*) => {
        match $x {
            PrefixedVariation::Group0(a) => list_attr(a, $obs),
            PrefixedVariation::Group111VarX(_, s) => list_objs(&pbytes(s), $obs),
            $(PrefixedVariation::$v(s) => list_objs(&prefixed(s), $obs),)*
        }
    };
}

fn list_prefixed<I: Index + std::fmt::Display>(x: &PrefixedVariation<I>, obs: &mut Vec<String>) {
    prefixed_fixed!(x, obs;
        Group2Var1, Group2Var2, Group2Var3, Group4Var1, Group4Var2, Group4Var3, Group11Var1, Group11Var2,
        Group12Var1, Group13Var1, Group13Var2, Group22Var1, Group22Var2, Group22Var5, Group22Var6,
        Group23Var1, Group23Var2, Group23Var5, Group23Var6,
        Group32Var1, Group32Var2, Group32Var3, Group32Var4, Group32Var5, Group32Var6, Group32Var7, Group32Var8,
        Group33Var1, Group33Var2, Group33Var3, Group33Var4, Group33Var5, Group33Var6, Group33Var7, Group33Var8,
        Group34Var1, Group34Var2, Group34Var3, Group41Var1, Group41Var2, Group41Var3, Group41Var4,
        Group42Var1, Group42Var2, Group42Var3, Group42Var4, Group42Var5, Group42Var6, Group42Var7, Group42Var8,
        Group43Var1, Group43Var2, Group43Var3, Group43Var4, Group43Var5, Group43Var6, Group43Var7, Group43Var8);
}

fn list_header(h: &ObjectHeader, obs: &mut Vec<String>) {
    let (g, v) = h.variation.to_group_and_var();
    let q = h.details.qualifier().as_u8();
    match &h.details {
        HeaderDetails::AllObjects(_) => {
            obs.push(format!("h {} {} {}", g, v, q));
            list_objs(&[], obs);
        }
        HeaderDetails::OneByteStartStop(s1, s2, x) => {
            obs.push(format!("h {} {} {} {} {}", g, v, q, s1, s2));
            list_ranged(x, obs);
        }
        HeaderDetails::TwoByteStartStop(s1, s2, x) => {
            obs.push(format!("h {} {} {} {} {}", g, v, q, s1, s2));
            list_ranged(x, obs);
        }
        HeaderDetails::OneByteCount(c, x) => {
            obs.push(format!("h {} {} {} {}", g, v, q, c));
            list_count(x, obs);
        }
        HeaderDetails::TwoByteCount(c, x) => {
            obs.push(format!("h {} {} {} {}", g, v, q, c));
            list_count(x, obs);
        }
        HeaderDetails::OneByteCountAndPrefix(c, x) => {
            obs.push(format!("h {} {} {} {}", g, v, q, c));
            list_prefixed(x, obs);
        }
        HeaderDetails::TwoByteCountAndPrefix(c, x) => {
            obs.push(format!("h {} {} {} {}", g, v, q, c));
            list_prefixed(x, obs);
        }
        HeaderDetails::TwoByteFreeFormat(c, x) => {
            obs.push(format!("h {} {} {} {}", g, v, q, c));
            list_free(x, obs);
        }
    }
}

fn options(script: &Script) -> ParseOptions {
    ParseOptions {
        parse_zero_length_strings: script.cfg_u64("zls", 0) != 0,
    }
}

fn b(x: bool) -> char {
    if x {
        '1'
    } else {
        '0'
    }
}

/// the `parse` op: header, header validation for the given direction, then every object header
pub(crate) fn parse_and_list(opts: ParseOptions, mode: &str, data: &[u8], obs: &mut Vec<String>) {
    let fragment = match ParsedFragment::parse(opts, data) {
        Err(HeaderParseError::InsufficientBytes) => {
            obs.push("hdr-err insufficient".to_string());
            obs.push("end".to_string());
            return;
        }
        Err(HeaderParseError::UnknownFunction(seq, code)) => {
            obs.push(format!("hdr-err unknown-function {} {}", seq.value(), code));
            obs.push("end".to_string());
            return;
        }
        Ok(x) => x,
    };
    let c = fragment.control;
    let iin = match fragment.iin {
        Some(iin) => format!("{} {}", iin.iin1.value, iin.iin2.value),
        None => "-".to_string(),
    };
    obs.push(format!(
        "frag {} {}{}{}{} {} {}",
        fragment.function.as_u8(),
        b(c.fir),
        b(c.fin),
        b(c.con),
        b(c.uns),
        c.seq.value(),
        iin
    ));
    match mode {
        "req" => obs.push(match fragment.to_request() {
            Ok(_) => "req ok".to_string(),
            Err(RequestValidationError::UnexpectedFunction(_)) => {
                "req err unexpected-function".to_string()
            }
            Err(RequestValidationError::NonFirFin) => "req err non-fir-fin".to_string(),
            Err(RequestValidationError::UnexpectedUnsBit(_)) => {
                "req err unexpected-uns".to_string()
            }
        }),
        "resp" => obs.push(match fragment.to_response() {
            Ok(_) => "resp ok".to_string(),
            Err(ResponseValidationError::UnexpectedFunction(_)) => {
                "resp err unexpected-function".to_string()
            }
            Err(ResponseValidationError::SolicitedResponseWithUnsBit) => {
                "resp err sol-with-uns".to_string()
            }
            Err(ResponseValidationError::UnsolicitedResponseWithoutUnsBit) => {
                "resp err unsol-without-uns".to_string()
            }
            Err(ResponseValidationError::UnsolicitedResponseWithoutFirAndFin) => {
                "resp err unsol-without-firfin".to_string()
            }
        }),
        x => panic!("bad parse mode {}", x),
    }
    match fragment.objects {
        Err(e) => obs.push(format!("obj-err {}", obj_err(&e))),
        Ok(headers) => {
            for h in headers.iter() {
                list_header(&h, obs);
            }
        }
    }
    obs.push("end".to_string());
}

fn level(x: &str) -> AppDecodeLevel {
    match x {
        "0" => AppDecodeLevel::Nothing,
        "1" => AppDecodeLevel::Header,
        "2" => AppDecodeLevel::ObjectHeaders,
        "3" => AppDecodeLevel::ObjectValues,
        _ => panic!("bad decode level {}", x),
    }
}

fn variation(g: &str, v: &str) -> Variation {
    Variation::lookup(g.parse().expect("group"), v.parse().expect("variation"))
        .expect("unknown variation in encode op")
}

fn function(x: &str) -> FunctionCode {
    FunctionCode::from(x.parse().expect("function code"))
        .expect("unknown function code in encode op")
}

fn items<V: FixedSize, I: Copy>(args: &[String], index: impl Fn(u16) -> I) -> Vec<(V, I)> {
    // each item is <index>:<hex of the object>; the object is built with the production `read`
    args.iter()
        .map(|a| {
            let (i, h) = a.split_once(':').expect("item without ':'");
            let bytes = unhex(h);
            let mut cursor = ReadCursor::new(&bytes);
            let v = V::read(&mut cursor).expect("short object in encode op");
            assert!(cursor.is_empty(), "long object in encode op");
            (v, index(i.parse().expect("index")))
        })
        .collect()
}

/// the command headers of master/request.rs: `write_prefixed_items` through CommandHeader::write
fn command_header(gv: &str, prefix: &str, args: &[String]) -> crate::master::CommandHeader {
    use crate::master::CommandHeader as H;
    let u8i = |x: u16| -> u8 { u8::try_from(x).expect("index does not fit the 8-bit prefix") };
    let u16i = |x: u16| -> u16 { x };
    match (gv, prefix) {
        ("g12v1", "8") => H::G12V1U8(items(args, u8i)),
        ("g41v1", "8") => H::G41V1U8(items(args, u8i)),
        ("g41v2", "8") => H::G41V2U8(items(args, u8i)),
        ("g41v3", "8") => H::G41V3U8(items(args, u8i)),
        ("g41v4", "8") => H::G41V4U8(items(args, u8i)),
        ("g12v1", "16") => H::G12V1U16(items(args, u16i)),
        ("g41v1", "16") => H::G41V1U16(items(args, u16i)),
        ("g41v2", "16") => H::G41V2U16(items(args, u16i)),
        ("g41v3", "16") => H::G41V3U16(items(args, u16i)),
        ("g41v4", "16") => H::G41V4U16(items(args, u16i)),
        _ => panic!("bad command header {} {}", gv, prefix),
    }
}

// Group70Var8::write exists (test builds) but has no FreeFormat impl in the library (Group70Var6 has one in
// master/tests/file/mod.rs): the harness supplies the trivial one so that it goes through
// HeaderWriter::write_free_format as well
impl crate::app::format::free_format::FreeFormat for crate::app::file::Group70Var8<'_> {
    const VARIATION: Variation = Variation::Group70Var8;
    fn write(&self, cursor: &mut WriteCursor) -> Result<(), crate::app::format::WriteError> {
        Ok(self.write(cursor)?)
    }
}

fn file_status(x: u8) -> crate::app::file::FileStatus {
    use crate::app::file::FileStatus as S;
    match x {
        0 => S::Success,
        1 => S::PermissionDenied,
        2 => S::InvalidMode,
        3 => S::FileNotFound,
        4 => S::FileLocked,
        5 => S::TooManyOpen,
        6 => S::InvalidHandle,
        7 => S::WriteBlockSize,
        8 => S::CommLost,
        9 => S::CannotAbort,
        16 => S::NotOpened,
        17 => S::HandleExpired,
        18 => S::BufferOverrun,
        19 => S::Fatal,
        20 => S::BlockSeq,
        255 => S::Undefined,
        _ => S::Other(x),
    }
}

fn permissions(bits: u16) -> crate::app::file::Permissions {
    use crate::app::file::{PermissionSet, Permissions};
    let set = |shift: u16| PermissionSet {
        execute: bits & (1 << shift) != 0,
        write: bits & (2 << shift) != 0,
        read: bits & (4 << shift) != 0,
    };
    Permissions {
        world: set(0),
        group: set(3),
        owner: set(6),
    }
}

/// `free <v> <fields...>`: the real Group70Var<v> value written with HeaderWriter::write_free_format
fn free_header(
    writer: &mut HeaderWriter,
    a: &[String],
) -> Result<(), crate::app::format::WriteError> {
    use crate::app::file::*;
    use crate::app::Timestamp;
    fn num<T: std::str::FromStr>(s: &str) -> T {
        s.parse().ok().expect("number out of range in free header")
    }
    let text = |s: &String| -> String { String::from_utf8(unhex(s)).expect("utf8 in free header") };
    match a[0].as_str() {
        "2" => {
            let (user, pass) = (text(&a[2]), text(&a[3]));
            writer.write_free_format(&Group70Var2 {
                auth_key: num(&a[1]),
                user_name: &user,
                password: &pass,
            })
        }
        "3" => {
            let name = text(&a[8]);
            writer.write_free_format(&Group70Var3 {
                time_of_creation: Timestamp::new(num(&a[1])),
                permissions: permissions(num(&a[2])),
                auth_key: num(&a[3]),
                file_size: num(&a[4]),
                mode: crate::master::FileMode::new(num(&a[5])),
                max_block_size: num(&a[6]),
                request_id: num(&a[7]),
                file_name: &name,
            })
        }
        "4" => {
            let t = text(&a[6]);
            writer.write_free_format(&Group70Var4 {
                file_handle: num(&a[1]),
                file_size: num(&a[2]),
                max_block_size: num(&a[3]),
                request_id: num(&a[4]),
                status_code: file_status(num(&a[5])),
                text: &t,
            })
        }
        "5" => {
            let data = unhex(&a[3]);
            writer.write_free_format(&Group70Var5 {
                file_handle: num(&a[1]),
                block_number: num(&a[2]),
                file_data: &data,
            })
        }
        "6" => {
            let t = text(&a[4]);
            writer.write_free_format(&Group70Var6 {
                file_handle: num(&a[1]),
                block_number: num(&a[2]),
                status_code: file_status(num(&a[3])),
                text: &t,
            })
        }
        "7" => {
            let name = text(&a[6]);
            let ty: u16 = num(&a[1]);
            writer.write_free_format(&Group70Var7 {
                file_type: match ty {
                    0 => FileType::Directory,
                    1 => FileType::File,
                    x => FileType::Other(x),
                },
                file_size: num(&a[2]),
                time_of_creation: Timestamp::new(num(&a[3])),
                permissions: permissions(num(&a[4])),
                request_id: num(&a[5]),
                file_name: &name,
            })
        }
        "8" => {
            let spec = text(&a[1]);
            writer.write_free_format(&Group70Var8 {
                file_specification: &spec,
            })
        }
        x => panic!("bad free-format variation {}", x),
    }
}

/// `encode <seq> <function> <header>...` where headers are separated by `/`:
///    all <g> <v> | range8 <g> <v> <start> <stop> | range16 <g> <v> <start> <stop> | count8 <g> <v> <n> |
///    count16 <g> <v> <n> | classes <c1><c2><c3><c0> | cmd <gNvM> <8|16> <index>:<hex>... |
///    one <gNvM> <hex>   (write_count_of_one) | restart (write_clear_restart) | attr <set> <var> <type> <value> |
///    free <v> <fields...>   (write_free_format of a Group70Var<v>; numbers decimal in the order of the struct,
///                            strings / file data as hex of their bytes)
/// built with the production HeaderWriter through the master's request types where they exist
fn encode(op: &[String], capacity: usize) -> Result<Vec<u8>, String> {
    use crate::master::{Classes, EventClasses, ReadHeader};
    let seq = Sequence::new(op[1].parse().expect("seq"));
    let mut buffer = vec![0u8; capacity];
    let mut cursor = WriteCursor::new(&mut buffer);
    let mut writer = start_request(ControlField::request(seq), function(&op[2]), &mut cursor)
        .map_err(|e| match e {
            scursor::WriteError::NumericOverflow => "numeric-overflow".to_string(),
            scursor::WriteError::WriteOverflow { .. } => "write-overflow".to_string(),
            scursor::WriteError::BadSeek { .. } => "bad-seek".to_string(),
        })?;
    for h in op[3..].split(|x| x == "/") {
        if h.is_empty() {
            continue;
        }
        let res = match h[0].as_str() {
            "all" => ReadHeader::all_objects(variation(&h[1], &h[2])).format(&mut writer),
            "range8" => ReadHeader::one_byte_range(
                variation(&h[1], &h[2]),
                h[3].parse().unwrap(),
                h[4].parse().unwrap(),
            )
            .format(&mut writer),
            "range16" => ReadHeader::two_byte_range(
                variation(&h[1], &h[2]),
                h[3].parse().unwrap(),
                h[4].parse().unwrap(),
            )
            .format(&mut writer),
            "count8" => {
                ReadHeader::one_byte_limited_count(variation(&h[1], &h[2]), h[3].parse().unwrap())
                    .format(&mut writer)
            }
            "count16" => {
                ReadHeader::two_byte_limited_count(variation(&h[1], &h[2]), h[3].parse().unwrap())
                    .format(&mut writer)
            }
            "classes" => {
                let c: Vec<bool> = h[1].chars().map(|x| x == '1').collect();
                Classes::new(c[3], EventClasses::new(c[0], c[1], c[2])).write(&mut writer)
            }
            "cmd" => command_header(&h[1], &h[2], &h[3..]).write(&mut writer),
            "one" => {
                let bytes = unhex(&h[2]);
                let mut rc = ReadCursor::new(&bytes);
                match h[1].as_str() {
                    "g50v1" => writer.write_count_of_one(Group50Var1::read(&mut rc).unwrap()),
                    "g50v2" => writer.write_count_of_one(Group50Var2::read(&mut rc).unwrap()),
                    "g50v3" => writer.write_count_of_one(Group50Var3::read(&mut rc).unwrap()),
                    "g52v2" => writer.write_count_of_one(Group52Var2::read(&mut rc).unwrap()),
                    x => panic!("bad count-of-one variation {}", x),
                }
            }
            "restart" => writer.write_clear_restart(),
            "attr" => {
                // attr <set> <var> <type> <value>: HeaderWriter::write_attribute of an OwnedAttribute
                use crate::app::attr::{AttrSet, AttrWriteError, OwnedAttrValue, OwnedAttribute};
                let value = match h[3].as_str() {
                    "int" => OwnedAttrValue::SignedInt(h[4].parse::<i64>().unwrap() as i32),
                    "uint" => OwnedAttrValue::UnsignedInt(h[4].parse().unwrap()),
                    "vstr" => OwnedAttrValue::VisibleString(
                        String::from_utf8(unhex(&h[4])).expect("utf8"),
                    ),
                    "ostr" => OwnedAttrValue::OctetString(unhex(&h[4])),
                    "bstr" => OwnedAttrValue::BitString(unhex(&h[4])),
                    "f32" => OwnedAttrValue::FloatingPoint(FloatType::F32(f32::from_bits(
                        h[4].parse().unwrap(),
                    ))),
                    "f64" => OwnedAttrValue::FloatingPoint(FloatType::F64(f64::from_bits(
                        h[4].parse().unwrap(),
                    ))),
                    "time" => {
                        OwnedAttrValue::Dnp3Time(crate::app::Timestamp::new(h[4].parse().unwrap()))
                    }
                    x => panic!("bad attribute type {}", x),
                };
                let attr = OwnedAttribute::new(
                    AttrSet::new(h[1].parse().unwrap()),
                    h[2].parse().unwrap(),
                    value,
                );
                match writer.write_attribute(&attr) {
                    Ok(()) => Ok(()),
                    // every cursor operation of write_attribute is a write: the only cursor error is an overflow
                    Err(AttrWriteError::Cursor) => return Err("write-overflow".to_string()),
                    Err(AttrWriteError::BadAttribute(_)) => {
                        return Err("attr-bad-length".to_string())
                    }
                }
            }
            "free" => match free_header(&mut writer, &h[1..]) {
                Ok(()) => Ok(()),
                // byte_length / checked_add / the 16-bit length of the object
                Err(crate::app::format::WriteError::Overflow) => {
                    return Err("numeric-overflow".to_string())
                }
                Err(crate::app::format::WriteError::WriteError(e)) => Err(e),
            },
            x => panic!("bad encode header {}", x),
        };
        res.map_err(|e| match e {
            scursor::WriteError::NumericOverflow => "numeric-overflow".to_string(),
            scursor::WriteError::WriteOverflow { .. } => "write-overflow".to_string(),
            scursor::WriteError::BadSeek { .. } => "bad-seek".to_string(),
        })?;
    }
    Ok(cursor.written().to_vec())
}

/// `dbwrite <budget> <type>,<index>,<class>,<svar>,<evar>,<value>,<flags>,<time> ...`
///   type: bi dbi ctr ai oct; svar/evar: variation number within the type's static / event group;
///   value: bi 0|1, dbi 0..3, ctr u32, ai f64 bits (hex), oct hex; time: n | s<ms> | u<ms>
fn dbwrite(op: &[String]) -> Vec<u8> {
    use crate::app::measurement::*;
    use crate::app::parse::parser::HeaderCollection;
    use crate::app::Timestamp;
    use crate::outstation::database::read::ReadHeader;
    use crate::outstation::database::*;

    let cfg = EventBufferConfig::new(1000, 1000, 1000, 1000, 1000, 1000, 1000, 1000);
    let mut db = Database::new(
        None,
        ClassZeroConfig::new(true, true, true, true, true, true, true, true),
        cfg,
    );
    let opts = UpdateOptions::new(true, EventMode::Force);
    for p in &op[2..] {
        let t: Vec<&str> = p.split(',').collect();
        let idx: u16 = t[1].parse().unwrap();
        let class = match t[2] {
            "0" => None,
            "1" => Some(EventClass::Class1),
            "2" => Some(EventClass::Class2),
            "3" => Some(EventClass::Class3),
            x => panic!("bad class {}", x),
        };
        let (sv, ev): (u8, u8) = (t[3].parse().unwrap(), t[4].parse().unwrap());
        let flags = Flags::new(u8::from_str_radix(t[6], 16).unwrap());
        let time = match t[7].split_at(1) {
            ("n", _) => None,
            ("s", x) => Some(Time::Synchronized(Timestamp::new(x.parse().unwrap()))),
            ("u", x) => Some(Time::Unsynchronized(Timestamp::new(x.parse().unwrap()))),
            _ => panic!("bad time"),
        };
        match t[0] {
            "bi" => {
                let s = match sv {
                    1 => StaticBinaryInputVariation::Group1Var1,
                    2 => StaticBinaryInputVariation::Group1Var2,
                    _ => panic!("svar"),
                };
                let e = match ev {
                    1 => EventBinaryInputVariation::Group2Var1,
                    2 => EventBinaryInputVariation::Group2Var2,
                    3 => EventBinaryInputVariation::Group2Var3,
                    _ => panic!("evar"),
                };
                db.add(idx, class, BinaryInputConfig { s_var: s, e_var: e });
                db.update2(
                    idx,
                    &BinaryInput {
                        value: t[5] == "1",
                        flags,
                        time,
                    },
                    opts,
                );
            }
            "dbi" => {
                let s = match sv {
                    1 => StaticDoubleBitBinaryInputVariation::Group3Var1,
                    2 => StaticDoubleBitBinaryInputVariation::Group3Var2,
                    _ => panic!("svar"),
                };
                let e = match ev {
                    1 => EventDoubleBitBinaryInputVariation::Group4Var1,
                    2 => EventDoubleBitBinaryInputVariation::Group4Var2,
                    3 => EventDoubleBitBinaryInputVariation::Group4Var3,
                    _ => panic!("evar"),
                };
                let v = match t[5] {
                    "0" => DoubleBit::Intermediate,
                    "1" => DoubleBit::DeterminedOff,
                    "2" => DoubleBit::DeterminedOn,
                    _ => DoubleBit::Indeterminate,
                };
                db.add(
                    idx,
                    class,
                    DoubleBitBinaryInputConfig { s_var: s, e_var: e },
                );
                db.update2(
                    idx,
                    &DoubleBitBinaryInput {
                        value: v,
                        flags,
                        time,
                    },
                    opts,
                );
            }
            "ctr" => {
                let s = match sv {
                    1 => StaticCounterVariation::Group20Var1,
                    2 => StaticCounterVariation::Group20Var2,
                    5 => StaticCounterVariation::Group20Var5,
                    6 => StaticCounterVariation::Group20Var6,
                    _ => panic!("svar"),
                };
                let e = match ev {
                    1 => EventCounterVariation::Group22Var1,
                    2 => EventCounterVariation::Group22Var2,
                    5 => EventCounterVariation::Group22Var5,
                    6 => EventCounterVariation::Group22Var6,
                    _ => panic!("evar"),
                };
                db.add(idx, class, CounterConfig::new(s, e, 0));
                db.update2(
                    idx,
                    &Counter {
                        value: t[5].parse().unwrap(),
                        flags,
                        time,
                    },
                    opts,
                );
            }
            "ai" => {
                let s = match sv {
                    1 => StaticAnalogInputVariation::Group30Var1,
                    2 => StaticAnalogInputVariation::Group30Var2,
                    3 => StaticAnalogInputVariation::Group30Var3,
                    4 => StaticAnalogInputVariation::Group30Var4,
                    5 => StaticAnalogInputVariation::Group30Var5,
                    6 => StaticAnalogInputVariation::Group30Var6,
                    _ => panic!("svar"),
                };
                let e = match ev {
                    1 => EventAnalogInputVariation::Group32Var1,
                    2 => EventAnalogInputVariation::Group32Var2,
                    3 => EventAnalogInputVariation::Group32Var3,
                    4 => EventAnalogInputVariation::Group32Var4,
                    5 => EventAnalogInputVariation::Group32Var5,
                    6 => EventAnalogInputVariation::Group32Var6,
                    7 => EventAnalogInputVariation::Group32Var7,
                    8 => EventAnalogInputVariation::Group32Var8,
                    _ => panic!("evar"),
                };
                db.add(idx, class, AnalogInputConfig::new(s, e, 0.0));
                db.update2(
                    idx,
                    &AnalogInput {
                        value: f64::from_bits(u64::from_str_radix(t[5], 16).unwrap()),
                        flags,
                        time,
                    },
                    opts,
                );
            }
            "oct" => {
                db.add(idx, class, OctetStringConfig);
                db.update2(
                    idx,
                    &OctetString::new(&unhex(t[5])).expect("octet string"),
                    opts,
                );
            }
            x => panic!("bad point type {}", x),
        }
    }
    // READ class 1, 2, 3, 0 exactly as a master's integrity poll asks for it
    let request = [60u8, 2, 6, 60, 3, 6, 60, 4, 6, 60, 1, 6];
    let headers = HeaderCollection::parse(ParseOptions::default(), FunctionCode::Read, &request)
        .expect("class scan");
    for h in headers.iter() {
        db.inner
            .select_by_header(ReadHeader::get(&h).expect("class header"));
    }
    let mut buf = vec![0u8; op[1].parse::<usize>().unwrap()];
    let mut cursor = WriteCursor::new(&mut buf);
    let _ = db.inner.write_response_headers(&mut cursor);
    let mut out = vec![0xC0, 0x81, 0x00, 0x00];
    out.extend_from_slice(cursor.written());
    out
}

pub(crate) async fn run_app(script: &Script, obs: &mut Vec<String>) {
    let opts = options(script);
    let capacity = script.cfg_u64("cap", 2048) as usize;
    for op in &script.ops {
        match op[0].as_str() {
            "parse" => parse_and_list(opts, &op[1], &unhex(&op[2]), obs),
            "display" => {
                let data = unhex(&op[2]);
                match ParsedFragment::parse(opts, &data) {
                    Ok(fragment) => {
                        let text = format!("{}", fragment.display(level(&op[1])));
                        std::hint::black_box(text.len());
                        obs.push(format!("display {} ok", op[1]));
                    }
                    Err(_) => obs.push(format!("display {} hdr-err", op[1])),
                }
                obs.push("end".to_string());
            }
            "encode" => match encode(op, capacity) {
                Ok(bytes) => {
                    obs.push(format!("bytes {}", hex(&bytes)));
                    parse_and_list(opts, "req", &bytes, obs);
                }
                Err(e) => {
                    obs.push(format!("encode-err {}", e));
                    obs.push("end".to_string());
                }
            },
            "dbwrite" => {
                let bytes = dbwrite(op);
                obs.push(format!("bytes {}", hex(&bytes)));
                parse_and_list(opts, "resp", &bytes, obs);
            }
            x => panic!("bad op {}", x),
        }
    }
}
