// Engine for the application-layer codec (C09, C10); filled in by a later step.
use super::Script;

pub(crate) async fn run_app(script: &Script, obs: &mut Vec<String>) {
    let _ = script;
    obs.push("unimplemented".to_string());
}
