// Engine `msched`: the MASTER's automatic tasks and scheduling (properties C17 and C19).
//
// A `MasterTask` is created over `PhysLayer::Mock` exactly as the repository's own test harness
// does (dnp3/src/master/tests/harness/mod.rs): under cfg(test) the transport is the mock, so bytes
// queued on the mock IO handle are whole APPLICATION fragments and observed writes are whole
// application fragments.  Hook H6 stamps every received fragment with its source link address.
//
// cfg:   n=<1..4>            number of associations (addresses 1024+i)
//        a<i>=dis:integ:en:ts:ovf:ev:rmin:rmax:ka:rto:maxq
//              dis/en/ev  event class mask (bit0=class1, bit1=class2, bit2=class3)
//              integ      class mask of the start-up integrity poll (bit3 = class 0)
//              ts         auto time sync: 0 none, 1 LAN, 2 non-LAN, 3 direct write
//              ovf        auto integrity scan on EVENT_BUFFER_OVERFLOW (0/1)
//              rmin/rmax  retry strategy of the automatic tasks, milliseconds
//              ka         keep-alive timeout in ms, 0 = none
//              rto        response timeout in ms (1 ..= 3_600_000)
//              maxq       max_queued_user_requests
//        systime=<ms>|none   what AssociationHandler::get_current_time answers (base + virtual ms)
//        wakes=1             print `wakes <max polls of the master task within one virtual ms>` at
//                            the end (implementation-only scripts, not compared with the model)
// ops:   rx <from> <hex> | sleep <ms> | add_poll <assoc> <period_ms> <classes> | demand <assoc> <poll>
//        user <assoc> <token> <kind> [arg]   kind: read <classes> | link | empty | tsync <1|2|3>
//        enable | disable | reconnect | systime <ms>|none | now
//        backoff <min_s>:<min_ns> <max_s>:<max_ns> <n>    (calls app::retry directly)
//
// Settle: after every op the harness awaits `tokio::time::sleep(1 ms)` (paused clock: virtual time
// advances only when every task is blocked, timer by timer) and then yields a few times so that
// everything due at that instant is processed before the next op.  An op therefore happens at
// virtual time t and costs 1 ms; `sleep d` costs d + 1.
//
// Observations carry the virtual time in ms and are printed at the end of the script sorted by
// (time, stream) where stream 0 = callbacks made synchronously by the master task (conn/closed,
// cb, info, link-status requests), 1 = fragments written (seen through the mock IO handle), 2 =
// completions of user requests, 3 = `now`.  Within one (time, stream) the arrival order is kept.
//   conn <t> | closed <t> <reason>
//   rx <t> <from>                       a fragment is handed to the connected master (stream 0)
//   op <t> <op ...>                     a user / demand / add_poll / enable / disable / reconnect op is issued (stream 0)
//   tx <t> <hex>                        fragment written
//   txlink <t> <assoc>                  REQUEST_LINK_STATUS (the mock transport writes nothing; seen
//                                       through the tracing event of MasterSession::run_link_status_task)
//   cb <t> <assoc> <read_type> <n>      ReadHandler: one fragment delivered with n measurement values
//   info <t> <assoc> start|ok <type> <fc> <seq> | info <t> <assoc> fail <type> <err> | info <t> <assoc> unsol <dup> <seq>
//   res <t> <token> ok | res <t> <token> err <kind>
//   now <t>
// A wall-clock watchdog thread guards against a master task that never yields: after
// STALL_SECS without progress it writes the traces finished so far plus the current one ending in
// `stall` to VERIF_OUT and exits the process.

use super::{hex, unhex, Script};
use std::sync::atomic::{AtomicBool, AtomicU64, Ordering};
use std::sync::{Arc, Mutex};
use std::time::Duration;

use crate::app::measurement::*;
use crate::app::parse::options::ParseOptions;
use crate::app::{
    BufferSize, ExponentialBackOff, FunctionCode, MaybeAsync, ResponseHeader, RetryStrategy,
    Sequence, Timeout, Timestamp,
};
use crate::decode::DecodeLevel;
use crate::link::header::{FrameInfo, FrameType};
use crate::link::reader::LinkModes;
use crate::link::EndpointAddress;
use crate::master::task::MasterTask;
use crate::master::{
    AssociationConfig, AssociationHandle, AssociationHandler, AssociationInformation, Classes,
    EventClasses, HeaderInfo, Headers, MasterChannel, MasterChannelConfig, MasterChannelType,
    ReadHandler, ReadRequest, ReadType, TaskError, TaskType, TimeSyncError, TimeSyncProcedure,
    WriteError,
};
use crate::util::phys::{PhysAddr, PhysLayer};
use crate::util::session::{Enabled, RunError, StopReason};

const STALL_SECS: u64 = 20;

// ---- shared log -------------------------------------------------------------------------------

struct Shared {
    start: tokio::time::Instant,
    log: Mutex<Vec<(u64, u8, String)>>,
    systime: Mutex<Option<u64>>,
    connected: AtomicBool,
}

impl Shared {
    fn now_ms(&self) -> u64 {
        (tokio::time::Instant::now() - self.start).as_millis() as u64
    }
    fn push(&self, stream: u8, f: impl FnOnce(u64) -> String) {
        let t = self.now_ms();
        let line = f(t);
        self.log.lock().unwrap().push((t, stream, line));
        heartbeat();
    }
}

// ---- watchdog ---------------------------------------------------------------------------------

struct Watch {
    beat: AtomicU64,     // wall-clock ms since WATCH_START of the last progress
    running: AtomicBool, // a script of this engine is executing
    current: Mutex<Option<(String, Arc<Shared>)>>,
    finished: Mutex<String>, // traces of the msched scripts already finished
}

static WATCH: std::sync::OnceLock<Arc<Watch>> = std::sync::OnceLock::new();
static WATCH_START: std::sync::OnceLock<std::time::Instant> = std::sync::OnceLock::new();

fn wall_ms() -> u64 {
    WATCH_START
        .get_or_init(std::time::Instant::now)
        .elapsed()
        .as_millis() as u64
}

fn heartbeat() {
    if let Some(w) = WATCH.get() {
        w.beat.store(wall_ms(), Ordering::Relaxed);
    }
}

fn sorted_lines(shared: &Shared) -> Vec<String> {
    let mut entries: Vec<(u64, u8, usize, String)> = shared
        .log
        .lock()
        .unwrap()
        .iter()
        .enumerate()
        .map(|(i, (t, s, l))| (*t, *s, i, l.clone()))
        .collect();
    entries.sort_by(|a, b| (a.0, a.1, a.2).cmp(&(b.0, b.1, b.2)));
    entries.into_iter().map(|e| e.3).collect()
}

fn watch() -> Arc<Watch> {
    WATCH
        .get_or_init(|| {
            let w = Arc::new(Watch {
                beat: AtomicU64::new(wall_ms()),
                running: AtomicBool::new(false),
                current: Mutex::new(None),
                finished: Mutex::new(String::new()),
            });
            let w2 = w.clone();
            std::thread::spawn(move || loop {
                std::thread::sleep(Duration::from_millis(500));
                if !w2.running.load(Ordering::Relaxed) {
                    continue;
                }
                let idle = wall_ms().saturating_sub(w2.beat.load(Ordering::Relaxed));
                if idle > STALL_SECS * 1000 {
                    // the master task (or the engine) never yielded: report and leave
                    let mut out = w2.finished.lock().unwrap().clone();
                    if let Some((id, shared)) = w2.current.lock().unwrap().as_ref() {
                        out.push_str(&format!("T {}\n", id));
                        if let Ok(log) = shared.log.try_lock() {
                            let mut entries: Vec<(u64, u8, usize, String)> = log
                                .iter()
                                .enumerate()
                                .map(|(i, (t, s, l))| (*t, *s, i, l.clone()))
                                .collect();
                            entries.sort_by(|a, b| (a.0, a.1, a.2).cmp(&(b.0, b.1, b.2)));
                            for e in entries {
                                out.push_str(&e.3);
                                out.push('\n');
                            }
                        }
                        out.push_str("stall\nE\n");
                    }
                    if let Ok(path) = std::env::var("VERIF_OUT") {
                        let _ = std::fs::write(path, out);
                    }
                    std::process::exit(0);
                }
            });
            w
        })
        .clone()
}

// ---- names ------------------------------------------------------------------------------------

fn task_type_name(t: TaskType) -> String {
    match t {
        TaskType::UserRead => "user-read".into(),
        TaskType::PeriodicPoll => "poll".into(),
        TaskType::StartupIntegrity => "integrity".into(),
        TaskType::AutoEventScan => "event-scan".into(),
        TaskType::Command => "command".into(),
        TaskType::ClearRestartBit => "clear-restart".into(),
        TaskType::EnableUnsolicited => "enable-unsol".into(),
        TaskType::DisableUnsolicited => "disable-unsol".into(),
        TaskType::TimeSync => "time-sync".into(),
        TaskType::Restart => "restart".into(),
        TaskType::WriteDeadBands => "dead-bands".into(),
        TaskType::GenericEmptyResponse(fc) => format!("empty-{}", fc.as_u8()),
        _ => "other".into(),
    }
}

fn task_error_name(e: TaskError) -> String {
    match e {
        TaskError::TooManyRequests => "too-many-requests".into(),
        TaskError::Link(_) => "link".into(),
        TaskError::Transport => "transport".into(),
        TaskError::RejectedByIin2(_) => "iin2".into(),
        TaskError::MalformedResponse(_) => "malformed".into(),
        TaskError::UnexpectedResponseHeaders => "unexpected-headers".into(),
        TaskError::NonFinWithoutCon => "non-fin-without-con".into(),
        TaskError::NeverReceivedFir => "never-fir".into(),
        TaskError::UnexpectedFir => "unexpected-fir".into(),
        TaskError::MultiFragmentResponse => "multi-fragment".into(),
        TaskError::ResponseTimeout => "timeout".into(),
        TaskError::WriteError => "write-error".into(),
        TaskError::BadEncoding(_) => "bad-encoding".into(),
        TaskError::NoSuchAssociation(_) => "no-association".into(),
        TaskError::NoConnection => "no-connection".into(),
        TaskError::Shutdown => "shutdown".into(),
        TaskError::Disabled => "disabled".into(),
    }
}

fn time_sync_error_name(e: TimeSyncError) -> String {
    match e {
        TimeSyncError::Task(t) => task_error_name(t),
        TimeSyncError::ClockRollback => "clock-rollback".into(),
        TimeSyncError::SystemTimeNotUnix => "not-unix".into(),
        TimeSyncError::BadOutstationTimeDelay(_) => "bad-delay".into(),
        TimeSyncError::Overflow => "overflow".into(),
        TimeSyncError::StillNeedsTime => "still-needs-time".into(),
        TimeSyncError::SystemTimeNotAvailable => "no-system-time".into(),
        TimeSyncError::IinError(_) => "iin2".into(),
    }
}

fn write_error_name(e: WriteError) -> String {
    match e {
        WriteError::Task(t) => task_error_name(t),
        WriteError::IinError(_) => "iin2".into(),
    }
}

fn read_type_name(t: ReadType) -> &'static str {
    match t {
        ReadType::StartupIntegrity => "integrity",
        ReadType::Unsolicited => "unsol",
        ReadType::SinglePoll => "single",
        ReadType::PeriodicPoll => "poll",
    }
}

fn event_classes(mask: u64) -> EventClasses {
    EventClasses::new(mask & 1 != 0, mask & 2 != 0, mask & 4 != 0)
}

fn classes(mask: u64) -> Classes {
    Classes::new(mask & 8 != 0, event_classes(mask))
}

fn procedure(x: u64) -> Option<TimeSyncProcedure> {
    match x {
        0 => None,
        1 => Some(TimeSyncProcedure::Lan),
        2 => Some(TimeSyncProcedure::NonLan),
        3 => Some(TimeSyncProcedure::DirectWriteAbsTime),
        _ => panic!("bad time sync procedure"),
    }
}

// ---- handlers ---------------------------------------------------------------------------------

struct Reads {
    shared: Arc<Shared>,
    assoc: usize,
    count: u64,
}

impl Reads {
    fn add<T>(&mut self, iter: &mut dyn Iterator<Item = T>) {
        self.count += iter.count() as u64;
    }
}

impl ReadHandler for Reads {
    fn begin_fragment(&mut self, _read_type: ReadType, _header: ResponseHeader) -> MaybeAsync<()> {
        self.count = 0;
        MaybeAsync::ready(())
    }
    fn end_fragment(&mut self, read_type: ReadType, _header: ResponseHeader) -> MaybeAsync<()> {
        let (assoc, n) = (self.assoc, self.count);
        self.shared.push(0, |t| {
            format!("cb {} {} {} {}", t, assoc, read_type_name(read_type), n)
        });
        MaybeAsync::ready(())
    }
    fn handle_binary_input(
        &mut self,
        _info: HeaderInfo,
        iter: &mut dyn Iterator<Item = (BinaryInput, u16)>,
    ) {
        self.add(iter)
    }
    fn handle_double_bit_binary_input(
        &mut self,
        _info: HeaderInfo,
        iter: &mut dyn Iterator<Item = (DoubleBitBinaryInput, u16)>,
    ) {
        self.add(iter)
    }
    fn handle_binary_output_status(
        &mut self,
        _info: HeaderInfo,
        iter: &mut dyn Iterator<Item = (BinaryOutputStatus, u16)>,
    ) {
        self.add(iter)
    }
    fn handle_counter(
        &mut self,
        _info: HeaderInfo,
        iter: &mut dyn Iterator<Item = (Counter, u16)>,
    ) {
        self.add(iter)
    }
    fn handle_frozen_counter(
        &mut self,
        _info: HeaderInfo,
        iter: &mut dyn Iterator<Item = (FrozenCounter, u16)>,
    ) {
        self.add(iter)
    }
    fn handle_analog_input(
        &mut self,
        _info: HeaderInfo,
        iter: &mut dyn Iterator<Item = (AnalogInput, u16)>,
    ) {
        self.add(iter)
    }
    fn handle_analog_output_status(
        &mut self,
        _info: HeaderInfo,
        iter: &mut dyn Iterator<Item = (AnalogOutputStatus, u16)>,
    ) {
        self.add(iter)
    }
}

struct Clock {
    shared: Arc<Shared>,
}

impl AssociationHandler for Clock {
    fn get_current_time(&self) -> Option<Timestamp> {
        let base = *self.shared.systime.lock().unwrap();
        base.map(|b| Timestamp::new(b + self.shared.now_ms()))
    }
}

struct Info {
    shared: Arc<Shared>,
    assoc: usize,
}

impl AssociationInformation for Info {
    fn task_start(&mut self, task_type: TaskType, fc: FunctionCode, seq: Sequence) {
        let a = self.assoc;
        self.shared.push(0, |t| {
            format!(
                "info {} {} start {} {} {}",
                t,
                a,
                task_type_name(task_type),
                fc.as_u8(),
                seq.value()
            )
        });
    }
    fn task_success(&mut self, task_type: TaskType, fc: FunctionCode, seq: Sequence) {
        let a = self.assoc;
        self.shared.push(0, |t| {
            format!(
                "info {} {} ok {} {} {}",
                t,
                a,
                task_type_name(task_type),
                fc.as_u8(),
                seq.value()
            )
        });
    }
    fn task_fail(&mut self, task_type: TaskType, error: TaskError) {
        let a = self.assoc;
        self.shared.push(0, |t| {
            format!(
                "info {} {} fail {} {}",
                t,
                a,
                task_type_name(task_type),
                task_error_name(error)
            )
        });
    }
    fn unsolicited_response(&mut self, is_duplicate: bool, seq: Sequence) {
        let a = self.assoc;
        self.shared.push(0, |t| {
            format!(
                "info {} {} unsol {} {}",
                t,
                a,
                is_duplicate as u8,
                seq.value()
            )
        });
    }
}

// ---- tracing: the only trace a link status request leaves under the mock transport -------------

struct LinkStatusWatcher {
    shared: Arc<Shared>,
}

struct MessageVisitor(String);

impl tracing::field::Visit for MessageVisitor {
    fn record_debug(&mut self, field: &tracing::field::Field, value: &dyn std::fmt::Debug) {
        let s = format!("{:?}", value);
        if field.name() == "message" {
            self.0 = s;
        }
    }
}

impl tracing::Subscriber for LinkStatusWatcher {
    fn enabled(&self, _metadata: &tracing::Metadata<'_>) -> bool {
        true
    }
    fn new_span(&self, _span: &tracing::span::Attributes<'_>) -> tracing::span::Id {
        tracing::span::Id::from_u64(1)
    }
    fn record(&self, _span: &tracing::span::Id, _values: &tracing::span::Record<'_>) {}
    fn record_follows_from(&self, _span: &tracing::span::Id, _follows: &tracing::span::Id) {}
    fn event(&self, event: &tracing::Event<'_>) {
        let mut v = MessageVisitor(String::new());
        event.record(&mut v);
        if let Some(rest) = v.0.strip_prefix("sending link status request (for ") {
            let addr: u64 = rest
                .trim_end_matches(')')
                .parse()
                .expect("address in link status message");
            self.shared
                .push(0, |t| format!("txlink {} {}", t, addr.wrapping_sub(1024)));
        }
    }
    fn enter(&self, _span: &tracing::span::Id) {}
    fn exit(&self, _span: &tracing::span::Id) {}
}

// ---- counting polls of the master task ---------------------------------------------------------

struct CountPolls<F> {
    inner: std::pin::Pin<Box<F>>,
    shared: Arc<Shared>,
    stats: Arc<Mutex<(u64, u64, u64)>>, // (current ms, polls in it, maximum)
}

impl<F: std::future::Future> std::future::Future for CountPolls<F> {
    type Output = F::Output;
    fn poll(
        mut self: std::pin::Pin<&mut Self>,
        cx: &mut std::task::Context<'_>,
    ) -> std::task::Poll<F::Output> {
        {
            let t = self.shared.now_ms();
            let mut s = self.stats.lock().unwrap();
            if s.0 != t {
                s.0 = t;
                s.1 = 0;
            }
            s.1 += 1;
            if s.1 > s.2 {
                s.2 = s.1;
            }
            if s.1 > 100_000 {
                // an asynchronous busy loop under the paused clock: virtual time never advances
                drop(s);
                self.shared.push(3, |_| "stall".to_string());
                return std::task::Poll::Pending; // never woken again: the script ends with `stall`
            }
        }
        heartbeat();
        self.inner.as_mut().poll(cx)
    }
}

// ---- the engine -------------------------------------------------------------------------------

enum Cmd {
    Handle(sfio_tokio_mock_io::Handle),
    Closed,
    Read(Vec<u8>),
    ReadError,
}

fn parse_dur(s: &str) -> Duration {
    let (a, b) = s.split_once(':').expect("secs:nanos");
    Duration::new(a.parse().unwrap(), b.parse().unwrap())
}

fn run_backoff(op: &[String], obs: &mut Vec<String>) {
    let min = parse_dur(&op[1]);
    let max = parse_dur(&op[2]);
    let n: usize = op[3].parse().unwrap();
    let mut b = ExponentialBackOff::new(RetryStrategy::new(min, max));
    let mut line = String::from("delays");
    for _ in 0..n {
        let d = b.on_failure();
        line.push_str(&format!(" {}:{}", d.as_secs(), d.subsec_nanos()));
    }
    b.on_success();
    let d = b.on_failure();
    line.push_str(&format!(" reset {}:{}", d.as_secs(), d.subsec_nanos()));
    obs.push(line);
}

fn assoc_config(spec: &str) -> AssociationConfig {
    let f: Vec<u64> = spec
        .split(':')
        .map(|x| x.parse().expect("number in association spec"))
        .collect();
    assert!(f.len() == 11, "association spec needs 11 fields");
    let mut c = AssociationConfig::quiet();
    c.disable_unsol_classes = event_classes(f[0]);
    c.startup_integrity_classes = classes(f[1]);
    c.enable_unsol_classes = event_classes(f[2]);
    c.auto_time_sync = procedure(f[3]);
    c.auto_integrity_scan_on_buffer_overflow = f[4] != 0;
    c.event_scan_on_events_available = event_classes(f[5]);
    c.auto_tasks_retry_strategy =
        RetryStrategy::new(Duration::from_millis(f[6]), Duration::from_millis(f[7]));
    c.keep_alive_timeout = if f[8] == 0 {
        None
    } else {
        Some(Duration::from_millis(f[8]))
    };
    c.response_timeout =
        Timeout::from_duration(Duration::from_millis(f[9])).expect("response timeout in range");
    c.max_queued_user_requests = f[10] as usize;
    c
}

pub(crate) async fn run_msched(script: &Script, obs: &mut Vec<String>) {
    if script.ops.iter().all(|op| op[0] == "backoff") {
        for op in &script.ops {
            run_backoff(op, obs);
        }
        obs.push("end".to_string());
        return;
    }

    let w = watch();
    let shared = Arc::new(Shared {
        start: tokio::time::Instant::now(),
        log: Mutex::new(Vec::new()),
        systime: Mutex::new(match script.cfg_str("systime", "none").as_str() {
            "none" => None,
            x => Some(x.parse().expect("systime")),
        }),
        connected: AtomicBool::new(false),
    });
    *w.current.lock().unwrap() = Some((script.id.clone(), shared.clone()));
    heartbeat();
    w.running.store(true, Ordering::Relaxed);

    let _trace_guard = tracing::subscriber::set_default(LinkStatusWatcher {
        shared: shared.clone(),
    });
    crate::transport::mock::reader::verif_hook::clear();

    let n = script.cfg_u64("n", 1) as usize;
    assert!((1..=4).contains(&n));

    let task_config = MasterChannelConfig {
        master_address: EndpointAddress::try_new(1).unwrap(),
        decode_level: DecodeLevel::nothing(),
        tx_buffer_size: BufferSize::min(),
        rx_buffer_size: BufferSize::min(),
    };
    let (tx, rx) = crate::util::channel::request_channel();
    let mut task = MasterTask::new(
        Enabled::Yes,
        LinkModes::serial(),
        ParseOptions::default(),
        task_config,
        rx,
    );
    task.set_rx_frame_info(FrameInfo::new(
        EndpointAddress::try_new(1024).unwrap(),
        None,
        FrameType::Data,
        PhysAddr::None,
    ));
    let mut master = MasterChannel::new(tx, MasterChannelType::Stream);

    let (cmd_tx, mut cmd_rx) = tokio::sync::mpsc::unbounded_channel::<Cmd>();

    // the connection loop: what the TCP client task does around MasterTask::run, with a mock
    // connection that is re-established at once
    let stats = Arc::new(Mutex::new((0u64, 0u64, 0u64)));
    let driver_shared = shared.clone();
    let driver_cmd = cmd_tx.clone();
    let driver_future = async move {
        let mut graveyard: Vec<PhysLayer> = Vec::new();
        loop {
            while task.enabled() == Enabled::No {
                if task.process_next_message().await.is_err() {
                    return graveyard;
                }
            }
            let (io, handle) = sfio_tokio_mock_io::mock();
            let _ = driver_cmd.send(Cmd::Handle(handle));
            driver_shared.connected.store(true, Ordering::SeqCst);
            driver_shared.push(0, |t| format!("conn {}", t));
            let mut phys = PhysLayer::Mock(io);
            let err = task.run(&mut phys).await;
            driver_shared.connected.store(false, Ordering::SeqCst);
            let _ = driver_cmd.send(Cmd::Closed);
            let reason = match err {
                RunError::Stop(StopReason::Disable) => "disabled",
                RunError::Stop(StopReason::Shutdown) => "shutdown",
                RunError::Link(_) => "link",
            };
            driver_shared.push(0, |t| format!("closed {} {}", t, reason));
            graveyard.push(phys);
            if err == RunError::Stop(StopReason::Shutdown) {
                return graveyard;
            }
        }
    };
    let driver = tokio::spawn(CountPolls {
        inner: Box::pin(driver_future),
        shared: shared.clone(),
        stats: stats.clone(),
    });

    // the collector owns the mock IO handle: it stamps every write with the virtual time at which
    // it happened and queues reads / read errors on request
    let coll_shared = shared.clone();
    let collector = tokio::spawn(async move {
        let mut handle: Option<sfio_tokio_mock_io::Handle> = None;
        loop {
            tokio::select! {
                cmd = cmd_rx.recv() => {
                    match cmd {
                        None => return,
                        Some(Cmd::Handle(h)) => handle = Some(h),
                        Some(Cmd::Closed) => {
                            // drain what the closed connection still reports
                            if let Some(h) = handle.as_mut() {
                                while let Some(ev) = h.pop_event() {
                                    if let sfio_tokio_mock_io::Event::Write(data) = ev {
                                        coll_shared.push(1, |t| format!("tx {} {}", t, hex(&data)));
                                    }
                                }
                            }
                            handle = None;
                        }
                        Some(Cmd::Read(data)) => if let Some(h) = handle.as_mut() { h.read(&data) },
                        Some(Cmd::ReadError) => if let Some(h) = handle.as_mut() { h.read_error(std::io::ErrorKind::ConnectionReset) },
                    }
                }
                ev = async { handle.as_mut().unwrap().next_event().await }, if handle.is_some() => {
                    if let sfio_tokio_mock_io::Event::Write(data) = ev {
                        coll_shared.push(1, |t| format!("tx {} {}", t, hex(&data)));
                    }
                }
            }
        }
    });

    // associations
    let mut assocs: Vec<AssociationHandle> = Vec::new();
    let mut polls: Vec<Vec<crate::master::PollHandle>> = Vec::new();
    for i in 0..n {
        let spec = script.cfg_str(&format!("a{}", i), "0:0:0:0:0:0:1000:10000:0:1000:16");
        let config = assoc_config(&spec);
        let h = master
            .add_association(
                EndpointAddress::try_new(1024 + i as u16).unwrap(),
                config,
                Box::new(Reads {
                    shared: shared.clone(),
                    assoc: i,
                    count: 0,
                }),
                Box::new(Clock {
                    shared: shared.clone(),
                }),
                Box::new(Info {
                    shared: shared.clone(),
                    assoc: i,
                }),
            )
            .await
            .expect("add_association");
        assocs.push(h);
        polls.push(Vec::new());
    }
    settle().await;

    let mut users = Vec::new();
    for op in &script.ops {
        heartbeat();
        if matches!(
            op[0].as_str(),
            "user" | "demand" | "add_poll" | "enable" | "disable" | "reconnect"
        ) {
            // marks, among the callbacks of the master task, the point at which the op is issued
            let text = op.join(" ");
            shared.push(0, |t| format!("op {} {}", t, text));
        }
        match op[0].as_str() {
            "rx" => {
                let from: u16 = op[1].parse().unwrap();
                let data = unhex(&op[2]);
                if shared.connected.load(Ordering::SeqCst) && !data.is_empty() {
                    // marks, among the callbacks of the master task, the point at which the
                    // fragment is handed to it
                    shared.push(0, |t| format!("rx {} {}", t, from));
                    crate::transport::mock::reader::verif_hook::push_frame_info(FrameInfo::new(
                        EndpointAddress::try_new(from).unwrap(),
                        None,
                        FrameType::Data,
                        PhysAddr::None,
                    ));
                    let _ = cmd_tx.send(Cmd::Read(data));
                }
            }
            "sleep" => {
                let ms: u64 = op[1].parse().unwrap();
                tokio::time::sleep(Duration::from_millis(ms)).await;
            }
            "add_poll" => {
                let a: usize = op[1].parse().unwrap();
                let period: u64 = op[2].parse().unwrap();
                let mask: u64 = op[3].parse().unwrap();
                let h = assocs[a]
                    .add_poll(
                        ReadRequest::class_scan(classes(mask)),
                        Duration::from_millis(period),
                    )
                    .await
                    .expect("add_poll");
                polls[a].push(h);
            }
            "demand" => {
                let a: usize = op[1].parse().unwrap();
                let p: usize = op[2].parse().unwrap();
                if let Some(h) = polls[a].get_mut(p) {
                    h.demand().await.expect("demand");
                }
            }
            "user" => {
                let a: usize = op[1].parse().unwrap();
                let token = op[2].clone();
                let kind = op[3].clone();
                let arg: u64 = op.get(4).map(|x| x.parse().unwrap()).unwrap_or(0);
                let mut h = assocs[a].clone();
                let sh = shared.clone();
                users.push(tokio::spawn(async move {
                    let res: Result<(), String> = match kind.as_str() {
                        "read" => h
                            .read(ReadRequest::class_scan(classes(arg)))
                            .await
                            .map_err(task_error_name),
                        "link" => h.check_link_status().await.map_err(task_error_name),
                        "empty" => h
                            .send_and_expect_empty_response(
                                FunctionCode::ImmediateFreeze,
                                Headers::new(),
                            )
                            .await
                            .map_err(write_error_name),
                        "tsync" => h
                            .synchronize_time(procedure(arg).expect("procedure"))
                            .await
                            .map_err(time_sync_error_name),
                        other => panic!("unknown user request kind {}", other),
                    };
                    match res {
                        Ok(()) => sh.push(2, |t| format!("res {} {} ok", t, token)),
                        Err(e) => sh.push(2, |t| format!("res {} {} err {}", t, token, e)),
                    }
                }));
            }
            "enable" => master.enable().await.expect("enable"),
            "disable" => master.disable().await.expect("disable"),
            "reconnect" => {
                if shared.connected.load(Ordering::SeqCst) {
                    let _ = cmd_tx.send(Cmd::ReadError);
                }
            }
            "systime" => {
                *shared.systime.lock().unwrap() = match op[1].as_str() {
                    "none" => None,
                    x => Some(x.parse().expect("systime")),
                };
            }
            "now" => shared.push(3, |t| format!("now {}", t)),
            other => panic!("unknown msched op {}", other),
        }
        settle().await;
        if shared.log.lock().unwrap().iter().any(|e| e.2 == "stall") {
            break;
        }
    }

    driver.abort();
    collector.abort();
    for u in users {
        u.abort();
    }
    let _ = driver.await;
    let _ = collector.await;

    w.running.store(false, Ordering::Relaxed);
    let mut lines = sorted_lines(&shared);
    if lines.iter().any(|l| l == "stall") {
        lines.retain(|l| l != "stall");
        lines.push("stall".to_string());
    }
    if script.cfg_u64("wakes", 0) == 1 {
        lines.push(format!("wakes {}", stats.lock().unwrap().2));
    }
    lines.push("end".to_string());
    {
        let mut fin = w.finished.lock().unwrap();
        fin.push_str(&format!("T {}\n", script.id));
        for l in &lines {
            fin.push_str(l);
            fin.push('\n');
        }
        fin.push_str("E\n");
    }
    *w.current.lock().unwrap() = None;
    obs.extend(lines);
}

async fn settle() {
    tokio::time::sleep(Duration::from_millis(1)).await;
    for _ in 0..6 {
        tokio::task::yield_now().await;
    }
    heartbeat();
}
