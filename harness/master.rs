// Engine `master` (C15, C16): the PRODUCTION master task (master::task::MasterTask with its
// MasterSession, Association, tasks/*, request.rs, extract.rs) over PhysLayer::Mock, created
// exactly as the repository's own test harness does (master/tests/harness/mod.rs).  Under
// cfg(test) the transport layer is the mock: every queued read is one whole APPLICATION fragment,
// every write is one whole application fragment.
//
// Channel emulation.  In production a MasterTask is driven by a connection loop (tcp/serial):
// `wait_for_enabled` / connect / `run(io)` / on error wait and reconnect, calling
// `process_next_message` while there is no connection.  The runner below is that loop with the
// connection attempts replaced by two flags: the master is connected iff it is enabled and the
// script says the link is up (`drop_io` makes the mock return a read error and takes the link
// down, `connect` brings it up again and the runner creates a fresh mock).
//
// Observations.  Everything goes through the ordered, time stamped trace of hook H5
// (util::verif_trace): fragments handed to the mock transport writer are recorded by the hook
// itself (`<t> tx <dest> <hex>`), the ReadHandler / AssociationInformation callbacks, the promise
// completions and the channel events are added here.  After every op the harness SETTLES: it
// awaits tokio::time::sleep(1 ms) under the paused clock (so every op costs exactly 1 ms of
// virtual time, the model charges the same) and then yields a few times so that a deadline that
// expires at exactly the same instant is handled by the master before the next stimulus is
// applied.  The lines of one op are printed in their true order, except that promise completions
// (`res`), which are observed by a waiter task, are moved to the end of the op's group.
//
// Script (cfg keys: timeout=<ms> (1000), disable_unsol / enable_unsol=<mask of classes 1..3>
// (0), integrity=<mask bit0=class0 bit1..3=class1..3> (0), retry_min / retry_max=<ms>,
// maxq=<n>, txsize=<n>, decode=<0..3>):
//   rx <from> <hex> <ok|bad> <item>...   one received fragment, stamped (H6) with source <from>;
//                                        <ok|bad> and the items are the generator's claim of
//                                        what the real parser says about the object section and
//                                        of what extract_measurements delivers; the harness
//                                        prints the REAL verdict (`pv`) and the REAL callbacks
//   sleep <ms>
//   user <tok> read class:<mask> | read hdr:<hex of object headers>
//   user <tok> sbo|do <hdr>...           hdr = <g>.<v>/<8|16>/<idx>=<hex of the object>,...
//   user <tok> deadband <hdr>...         same header syntax with 34.1 / 34.2 / 34.3
//   user <tok> cold_restart | warm_restart | link_status
//   user <tok> empty <fc> hdr:<hex>
//   disable | enable | drop_io | connect | remove | shutdown

use super::{decode_level, hex, unhex, Script};
use crate::app::measurement::*;
use crate::app::parse::options::ParseOptions;
use crate::app::parse::parser::ParsedFragment;
use crate::app::parse::traits::FixedSize;
use crate::app::variations::*;
use crate::app::{
    BufferSize, FunctionCode, QualifierCode, ResponseHeader, RetryStrategy, Timeout, Timestamp,
};
use crate::link::header::{FrameInfo, FrameType};
use crate::link::reader::LinkModes;
use crate::link::EndpointAddress;
use crate::master::messages::{AssociationMsg, AssociationMsgType, MasterMsg, Message};
use crate::master::promise::Promise;
use crate::master::task::MasterTask;
use crate::master::tasks::command::CommandTask;
use crate::master::tasks::deadbands::WriteDeadBandsTask;
use crate::master::tasks::empty_response::EmptyResponseTask;
use crate::master::tasks::read::SingleReadTask;
use crate::master::tasks::restart::{RestartTask, RestartType};
use crate::master::tasks::Task;
use crate::master::AssociationConfig;
use crate::master::{
    AssociationHandler, AssociationInformation, Classes, CommandBuilder, CommandHeaders,
    CommandMode, CommandSupport, DeadBandHeader, EventClasses, HeaderInfo, Headers,
    MasterChannelConfig, ReadHandler, ReadHeader, ReadRequest, ReadType, TaskType,
};
use crate::master::{CommandError, CommandResponseError, TaskError, WriteError};
use crate::transport::FragmentAddr;
use crate::util::phys::{PhysAddr, PhysLayer};
use crate::util::session::{Enabled, RunError, StopReason};
use crate::util::verif_trace as vt;
use std::cell::RefCell;
use std::rc::Rc;
use std::time::Duration;

fn log(line: String) {
    vt::log(line);
}

// ---------------------------------------------------------------------------------------------
// callbacks

fn time_text(t: Option<Time>) -> String {
    match t {
        None => "n".to_string(),
        Some(Time::Synchronized(x)) => format!("s{}", x.raw_value()),
        Some(Time::Unsynchronized(x)) => format!("u{}", x.raw_value()),
    }
}

fn info_text(kind: &str, info: HeaderInfo) -> String {
    let (g, v) = info.variation.to_group_and_var();
    format!(
        "{}/g{}v{}/{:02x}/e{}f{}",
        kind,
        g,
        v,
        info.qualifier.as_u8(),
        info.is_event as u8,
        info.has_flags as u8
    )
}

fn read_type_text(rt: ReadType) -> &'static str {
    match rt {
        ReadType::StartupIntegrity => "integrity",
        ReadType::Unsolicited => "unsol",
        ReadType::SinglePoll => "single",
        ReadType::PeriodicPoll => "poll",
    }
}

fn header_text(h: ResponseHeader) -> String {
    format!(
        "{:02x}{:02x}{:02x}{:02x}",
        h.control.to_u8(),
        if h.function.is_unsolicited() {
            0x82u8
        } else {
            0x81u8
        },
        h.iin.iin1.value,
        h.iin.iin2.value
    )
}

struct Rec;

impl ReadHandler for Rec {
    fn begin_fragment(
        &mut self,
        read_type: ReadType,
        header: ResponseHeader,
    ) -> crate::app::MaybeAsync<()> {
        log(format!(
            "cb begin {} {}",
            read_type_text(read_type),
            header_text(header)
        ));
        crate::app::MaybeAsync::ready(())
    }

    fn end_fragment(
        &mut self,
        read_type: ReadType,
        header: ResponseHeader,
    ) -> crate::app::MaybeAsync<()> {
        log(format!(
            "cb end {} {}",
            read_type_text(read_type),
            header_text(header)
        ));
        crate::app::MaybeAsync::ready(())
    }

    fn handle_binary_input(
        &mut self,
        info: HeaderInfo,
        iter: &mut dyn Iterator<Item = (BinaryInput, u16)>,
    ) {
        for (m, i) in iter {
            log(format!(
                "cb {}/{}={},{:02x},{}",
                info_text("bi", info),
                i,
                m.value as u8,
                m.flags.value,
                time_text(m.time)
            ));
        }
    }

    fn handle_double_bit_binary_input(
        &mut self,
        info: HeaderInfo,
        iter: &mut dyn Iterator<Item = (DoubleBitBinaryInput, u16)>,
    ) {
        for (m, i) in iter {
            let v = match m.value {
                DoubleBit::Intermediate => 0,
                DoubleBit::DeterminedOff => 1,
                DoubleBit::DeterminedOn => 2,
                DoubleBit::Indeterminate => 3,
            };
            log(format!(
                "cb {}/{}={},{:02x},{}",
                info_text("dbi", info),
                i,
                v,
                m.flags.value,
                time_text(m.time)
            ));
        }
    }

    fn handle_binary_output_status(
        &mut self,
        info: HeaderInfo,
        iter: &mut dyn Iterator<Item = (BinaryOutputStatus, u16)>,
    ) {
        for (m, i) in iter {
            log(format!(
                "cb {}/{}={},{:02x},{}",
                info_text("bos", info),
                i,
                m.value as u8,
                m.flags.value,
                time_text(m.time)
            ));
        }
    }

    fn handle_counter(&mut self, info: HeaderInfo, iter: &mut dyn Iterator<Item = (Counter, u16)>) {
        for (m, i) in iter {
            log(format!(
                "cb {}/{}={},{:02x},{}",
                info_text("ctr", info),
                i,
                m.value,
                m.flags.value,
                time_text(m.time)
            ));
        }
    }

    fn handle_frozen_counter(
        &mut self,
        info: HeaderInfo,
        iter: &mut dyn Iterator<Item = (FrozenCounter, u16)>,
    ) {
        for (m, i) in iter {
            log(format!(
                "cb {}/{}={},{:02x},{}",
                info_text("fctr", info),
                i,
                m.value,
                m.flags.value,
                time_text(m.time)
            ));
        }
    }

    fn handle_analog_input(
        &mut self,
        info: HeaderInfo,
        iter: &mut dyn Iterator<Item = (AnalogInput, u16)>,
    ) {
        for (m, i) in iter {
            log(format!(
                "cb {}/{}={:016x},{:02x},{}",
                info_text("ai", info),
                i,
                m.value.to_bits(),
                m.flags.value,
                time_text(m.time)
            ));
        }
    }

    fn handle_frozen_analog_input(
        &mut self,
        info: HeaderInfo,
        iter: &mut dyn Iterator<Item = (FrozenAnalogInput, u16)>,
    ) {
        for (m, i) in iter {
            log(format!(
                "cb {}/{}={:016x},{:02x},{}",
                info_text("fai", info),
                i,
                m.value.to_bits(),
                m.flags.value,
                time_text(m.time)
            ));
        }
    }

    fn handle_analog_input_dead_band(
        &mut self,
        info: HeaderInfo,
        iter: &mut dyn Iterator<Item = (AnalogInputDeadBand, u16)>,
    ) {
        for (m, i) in iter {
            let v = match m {
                AnalogInputDeadBand::U16(x) => format!("a{}", x),
                AnalogInputDeadBand::U32(x) => format!("b{}", x),
                AnalogInputDeadBand::F32(x) => format!("c{:08x}", x.to_bits()),
            };
            log(format!("cb {}/{}={}", info_text("aidb", info), i, v));
        }
    }

    fn handle_analog_output_status(
        &mut self,
        info: HeaderInfo,
        iter: &mut dyn Iterator<Item = (AnalogOutputStatus, u16)>,
    ) {
        for (m, i) in iter {
            log(format!(
                "cb {}/{}={:016x},{:02x},{}",
                info_text("aos", info),
                i,
                m.value.to_bits(),
                m.flags.value,
                time_text(m.time)
            ));
        }
    }

    fn handle_analog_output_command_event(
        &mut self,
        info: HeaderInfo,
        iter: &mut dyn Iterator<Item = (AnalogOutputCommandEvent, u16)>,
    ) {
        for (m, i) in iter {
            let v = match m.commanded_value {
                AnalogCommandValue::I16(x) => format!("a{}", x),
                AnalogCommandValue::I32(x) => format!("b{}", x),
                AnalogCommandValue::F32(x) => format!("c{:08x}", x.to_bits()),
                AnalogCommandValue::F64(x) => format!("d{:016x}", x.to_bits()),
            };
            log(format!(
                "cb {}/{}={},{},{}",
                info_text("aoce", info),
                i,
                v,
                m.status.as_u8(),
                time_text(m.time)
            ));
        }
    }

    fn handle_binary_output_command_event(
        &mut self,
        info: HeaderInfo,
        iter: &mut dyn Iterator<Item = (BinaryOutputCommandEvent, u16)>,
    ) {
        for (m, i) in iter {
            log(format!(
                "cb {}/{}={},{},{}",
                info_text("boce", info),
                i,
                m.commanded_state as u8,
                m.status.as_u8(),
                time_text(m.time)
            ));
        }
    }

    fn handle_unsigned_integer(
        &mut self,
        info: HeaderInfo,
        iter: &mut dyn Iterator<Item = (UnsignedInteger, u16)>,
    ) {
        for (m, i) in iter {
            log(format!("cb {}/{}={}", info_text("uint", info), i, m.value));
        }
    }

    fn handle_octet_string<'a>(
        &mut self,
        info: HeaderInfo,
        iter: &'a mut dyn Iterator<Item = (&'a [u8], u16)>,
    ) {
        for (m, i) in iter {
            log(format!("cb {}/{}={}", info_text("octet", info), i, hex(m)));
        }
    }

    fn handle_device_attribute(&mut self, info: HeaderInfo, _attr: crate::app::attr::AnyAttribute) {
        log(format!("cb {}/0=attr", info_text("attr", info)));
    }

    fn handle_abs_time(&mut self, info: HeaderInfo, time: Timestamp) {
        log(format!(
            "cb {}/0={}",
            info_text("abs", info),
            time.raw_value()
        ));
    }
}

struct NoTime;
impl AssociationHandler for NoTime {
    fn get_current_time(&self) -> Option<Timestamp> {
        None
    }
}

fn task_type_text(t: TaskType) -> String {
    match t {
        TaskType::UserRead => "user_read".to_string(),
        TaskType::PeriodicPoll => "periodic_poll".to_string(),
        TaskType::StartupIntegrity => "startup_integrity".to_string(),
        TaskType::AutoEventScan => "auto_event_scan".to_string(),
        TaskType::Command => "command".to_string(),
        TaskType::ClearRestartBit => "clear_restart".to_string(),
        TaskType::EnableUnsolicited => "enable_unsol".to_string(),
        TaskType::DisableUnsolicited => "disable_unsol".to_string(),
        TaskType::TimeSync => "time_sync".to_string(),
        TaskType::Restart => "restart".to_string(),
        TaskType::WriteDeadBands => "write_dead_bands".to_string(),
        TaskType::GenericEmptyResponse(fc) => format!("empty_response:{}", fc.as_u8()),
        TaskType::FileRead => "file_read".to_string(),
        TaskType::FileAuth => "file_auth".to_string(),
        TaskType::FileOpen => "file_open".to_string(),
        TaskType::FileWriteBlock => "file_write_block".to_string(),
        TaskType::FileClose => "file_close".to_string(),
        TaskType::GetFileInfo => "get_file_info".to_string(),
    }
}

pub(crate) fn task_error_text(e: TaskError) -> String {
    match e {
        TaskError::TooManyRequests => "too_many_requests".to_string(),
        TaskError::Link(_) => "link".to_string(),
        TaskError::Transport => "transport".to_string(),
        TaskError::RejectedByIin2(iin) => {
            format!("rejected:{:02x}{:02x}", iin.iin1.value, iin.iin2.value)
        }
        TaskError::MalformedResponse(_) => "malformed".to_string(),
        TaskError::UnexpectedResponseHeaders => "bad_headers".to_string(),
        TaskError::NonFinWithoutCon => "non_fin_without_con".to_string(),
        TaskError::NeverReceivedFir => "never_fir".to_string(),
        TaskError::UnexpectedFir => "unexpected_fir".to_string(),
        TaskError::MultiFragmentResponse => "multi_fragment".to_string(),
        TaskError::ResponseTimeout => "timeout".to_string(),
        TaskError::WriteError => "write_error".to_string(),
        TaskError::BadEncoding(_) => "bad_encoding".to_string(),
        TaskError::NoSuchAssociation(_) => "no_association".to_string(),
        TaskError::NoConnection => "no_connection".to_string(),
        TaskError::Shutdown => "shutdown".to_string(),
        TaskError::Disabled => "disabled".to_string(),
    }
}

fn command_error_text(e: CommandError) -> String {
    match e {
        CommandError::Task(t) => task_error_text(t),
        CommandError::Response(r) => match r {
            CommandResponseError::Request(t) => format!("request:{}", task_error_text(t)),
            CommandResponseError::BadStatus(s) => format!("status:{}", s.as_u8()),
            CommandResponseError::HeaderCountMismatch => "header_count".to_string(),
            CommandResponseError::HeaderTypeMismatch => "header_type".to_string(),
            CommandResponseError::ObjectCountMismatch => "object_count".to_string(),
            CommandResponseError::ObjectValueMismatch => "object_value".to_string(),
        },
    }
}

fn write_error_text(e: WriteError) -> String {
    match e {
        WriteError::Task(t) => task_error_text(t),
        WriteError::IinError(x) => format!("iin_error:{:02x}", x.value),
    }
}

struct Info;

impl AssociationInformation for Info {
    fn task_start(&mut self, task_type: TaskType, fc: FunctionCode, seq: crate::app::Sequence) {
        log(format!(
            "info task_start {} {} {}",
            task_type_text(task_type),
            fc.as_u8(),
            seq.value()
        ));
    }
    fn task_success(&mut self, task_type: TaskType, fc: FunctionCode, seq: crate::app::Sequence) {
        log(format!(
            "info task_success {} {} {}",
            task_type_text(task_type),
            fc.as_u8(),
            seq.value()
        ));
    }
    fn task_fail(&mut self, task_type: TaskType, error: TaskError) {
        log(format!(
            "info task_fail {} {}",
            task_type_text(task_type),
            task_error_text(error)
        ));
    }
    fn unsolicited_response(&mut self, is_duplicate: bool, seq: crate::app::Sequence) {
        log(format!(
            "info unsolicited {} {}",
            is_duplicate as u8,
            seq.value()
        ));
    }
}

// ---------------------------------------------------------------------------------------------
// the connection loop

struct Shared {
    link_up: bool,
    handle: Option<sfio_tokio_mock_io::Handle>,
    stopped: bool,
}

fn run_error_text(e: RunError) -> &'static str {
    match e {
        RunError::Stop(StopReason::Disable) => "disable",
        RunError::Stop(StopReason::Shutdown) => "shutdown",
        RunError::Link(_) => "link",
    }
}

async fn runner(mut task: MasterTask, shared: Rc<RefCell<Shared>>, wake: Rc<tokio::sync::Notify>) {
    loop {
        // no connection: messages are processed with is_connected == false
        loop {
            if task.enabled() == Enabled::Yes && shared.borrow().link_up {
                break;
            }
            tokio::select! {
                biased;
                r = task.process_next_message() => {
                    if let Err(StopReason::Shutdown) = r {
                        log("chan stopped".to_string());
                        shared.borrow_mut().stopped = true;
                        return;
                    }
                }
                _ = wake.notified() => {}
            }
        }
        let (io, handle) = sfio_tokio_mock_io::mock();
        shared.borrow_mut().handle = Some(handle);
        let mut io = PhysLayer::Mock(io);
        log("chan connected".to_string());
        let err = task.run(&mut io).await;
        log(format!("chan run_end {}", run_error_text(err)));
        shared.borrow_mut().handle = None;
        drop(io);
        match err {
            RunError::Stop(StopReason::Shutdown) => {
                log("chan stopped".to_string());
                shared.borrow_mut().stopped = true;
                return;
            }
            RunError::Link(_) => {
                // the script decides when the link comes back
                shared.borrow_mut().link_up = false;
            }
            RunError::Stop(StopReason::Disable) => {}
        }
    }
}

// ---------------------------------------------------------------------------------------------
// requests

fn variation(g: u8, v: u8) -> Variation {
    Variation::lookup(g, v).expect("unknown variation in script")
}

/// object headers of a request: qualifiers 06, 00, 01, 07, 08
fn read_headers(bytes: &[u8]) -> Vec<ReadHeader> {
    let mut out = Vec::new();
    let mut i = 0;
    while i < bytes.len() {
        let var = variation(bytes[i], bytes[i + 1]);
        let q = bytes[i + 2];
        i += 3;
        match q {
            0x06 => out.push(ReadHeader::all_objects(var)),
            0x00 => {
                out.push(ReadHeader::one_byte_range(var, bytes[i], bytes[i + 1]));
                i += 2;
            }
            0x01 => {
                out.push(ReadHeader::two_byte_range(
                    var,
                    u16::from_le_bytes([bytes[i], bytes[i + 1]]),
                    u16::from_le_bytes([bytes[i + 2], bytes[i + 3]]),
                ));
                i += 4;
            }
            0x07 => {
                out.push(ReadHeader::one_byte_limited_count(var, bytes[i]));
                i += 1;
            }
            0x08 => {
                out.push(ReadHeader::two_byte_limited_count(
                    var,
                    u16::from_le_bytes([bytes[i], bytes[i + 1]]),
                ));
                i += 2;
            }
            _ => panic!("unsupported qualifier in script"),
        }
    }
    out
}

fn classes(mask: u64) -> Classes {
    Classes::new(
        mask & 1 != 0,
        EventClasses::new(mask & 2 != 0, mask & 4 != 0, mask & 8 != 0),
    )
}

fn event_classes(mask: u64) -> EventClasses {
    EventClasses::new(mask & 1 != 0, mask & 2 != 0, mask & 4 != 0)
}

/// `<g>.<v>/<8|16>/<idx>=<hex>,<idx>=<hex>` -> (group, var, wide, [(index, object bytes)])
fn parse_hdr(tok: &str) -> (u8, u8, bool, Vec<(u16, Vec<u8>)>) {
    let parts: Vec<&str> = tok.split('/').collect();
    assert!(parts.len() == 3, "bad header token");
    let (g, v) = parts[0].split_once('.').expect("bad variation");
    let wide = match parts[1] {
        "8" => false,
        "16" => true,
        _ => panic!("bad index width"),
    };
    let mut items = Vec::new();
    if parts[2] != "-" {
        for it in parts[2].split(',') {
            let (i, h) = it.split_once('=').expect("bad item");
            items.push((i.parse::<u16>().expect("bad index"), unhex(h)));
        }
    }
    (g.parse().unwrap(), v.parse().unwrap(), wide, items)
}

fn read_obj<T: FixedSize>(bytes: &[u8]) -> T {
    assert!(bytes.len() == T::SIZE as usize, "object size");
    let mut cur = scursor::ReadCursor::new(bytes);
    T::read(&mut cur).expect("object read")
}

fn add_cmd<T>(b: &mut CommandBuilder, wide: bool, items: &[(u16, Vec<u8>)])
where
    T: FixedSize,
    CommandBuilder: CommandSupport<T>,
{
    for (i, bytes) in items {
        let obj: T = read_obj(bytes);
        if wide {
            b.add_u16(obj, *i);
        } else {
            b.add_u8(obj, *i as u8);
        }
    }
    b.finish_header();
}

fn command_headers(toks: &[String]) -> CommandHeaders {
    let mut b = CommandBuilder::new();
    for t in toks {
        let (g, v, wide, items) = parse_hdr(t);
        match (g, v) {
            (12, 1) => add_cmd::<Group12Var1>(&mut b, wide, &items),
            (41, 1) => add_cmd::<Group41Var1>(&mut b, wide, &items),
            (41, 2) => add_cmd::<Group41Var2>(&mut b, wide, &items),
            (41, 3) => add_cmd::<Group41Var3>(&mut b, wide, &items),
            (41, 4) => add_cmd::<Group41Var4>(&mut b, wide, &items),
            _ => panic!("not a command variation"),
        }
    }
    b.build()
}

fn dead_band_headers(toks: &[String]) -> Vec<DeadBandHeader> {
    let mut out = Vec::new();
    for t in toks {
        let (g, v, wide, items) = parse_hdr(t);
        assert!(g == 34);
        let u16v = |b: &Vec<u8>| u16::from_le_bytes([b[0], b[1]]);
        let u32v = |b: &Vec<u8>| u32::from_le_bytes([b[0], b[1], b[2], b[3]]);
        let h = match (v, wide) {
            (1, false) => DeadBandHeader::group34_var1_u8(
                items.iter().map(|(i, b)| (*i as u8, u16v(b))).collect(),
            ),
            (1, true) => {
                DeadBandHeader::group34_var1_u16(items.iter().map(|(i, b)| (*i, u16v(b))).collect())
            }
            (2, false) => DeadBandHeader::group34_var2_u8(
                items.iter().map(|(i, b)| (*i as u8, u32v(b))).collect(),
            ),
            (2, true) => {
                DeadBandHeader::group34_var2_u16(items.iter().map(|(i, b)| (*i, u32v(b))).collect())
            }
            (3, false) => DeadBandHeader::group34_var3_u8(
                items
                    .iter()
                    .map(|(i, b)| (*i as u8, f32::from_bits(u32v(b))))
                    .collect(),
            ),
            (3, true) => DeadBandHeader::group34_var3_u16(
                items
                    .iter()
                    .map(|(i, b)| (*i, f32::from_bits(u32v(b))))
                    .collect(),
            ),
            _ => panic!("bad dead-band variation"),
        };
        out.push(h);
    }
    out
}

fn spawn_waiter<T: 'static>(
    tok: String,
    rx: tokio::sync::oneshot::Receiver<T>,
    text: impl FnOnce(T) -> String + 'static,
) {
    tokio::task::spawn_local(async move {
        match rx.await {
            Ok(v) => log(format!("res {} {}", tok, text(v))),
            // the promise was dropped without being completed (the public API turns this into
            // TaskError::Shutdown)
            Err(_) => log(format!("res {} dropped", tok)),
        }
    });
}

fn user_task(op: &[String]) -> Task {
    let tok = op[1].clone();
    match op[2].as_str() {
        "read" => {
            let req = if let Some(m) = op[3].strip_prefix("class:") {
                ReadRequest::ClassScan(classes(m.parse().unwrap()))
            } else {
                let h = op[3].strip_prefix("hdr:").expect("read hdr:<hex>");
                ReadRequest::MultipleHeader(read_headers(&unhex(h)))
            };
            let (p, rx) = Promise::one_shot();
            spawn_waiter(tok, rx, |r: Result<(), TaskError>| match r {
                Ok(()) => "ok".to_string(),
                Err(e) => format!("err {}", task_error_text(e)),
            });
            SingleReadTask::new(req, p).into()
        }
        "sbo" | "do" => {
            let mode = if op[2] == "sbo" {
                CommandMode::SelectBeforeOperate
            } else {
                CommandMode::DirectOperate
            };
            let (p, rx) = Promise::one_shot();
            spawn_waiter(tok, rx, |r: Result<(), CommandError>| match r {
                Ok(()) => "ok".to_string(),
                Err(e) => format!("err {}", command_error_text(e)),
            });
            CommandTask::from_mode(mode, command_headers(&op[3..]), p).into()
        }
        "deadband" => {
            let (p, rx) = Promise::one_shot();
            spawn_waiter(tok, rx, |r: Result<(), WriteError>| match r {
                Ok(()) => "ok".to_string(),
                Err(e) => format!("err {}", write_error_text(e)),
            });
            WriteDeadBandsTask::new(dead_band_headers(&op[3..]), p).into()
        }
        "cold_restart" | "warm_restart" => {
            let rt = if op[2] == "cold_restart" {
                RestartType::ColdRestart
            } else {
                RestartType::WarmRestart
            };
            let (p, rx) = Promise::one_shot();
            spawn_waiter(tok, rx, |r: Result<Duration, TaskError>| match r {
                Ok(d) => format!("ok {}", d.as_millis()),
                Err(e) => format!("err {}", task_error_text(e)),
            });
            RestartTask::new(rt, p).into()
        }
        "empty" => {
            let fc = FunctionCode::from(op[3].parse::<u8>().unwrap()).expect("function code");
            let h = op[4].strip_prefix("hdr:").expect("empty <fc> hdr:<hex>");
            let mut headers = Headers::new();
            for rh in read_headers(&unhex(h)) {
                headers = match rh {
                    ReadHeader::AllObjects(x) => headers.add_all_objects(x.variation),
                    ReadHeader::Range8(x) => headers.add_range_8(x.variation, x.start, x.stop),
                    ReadHeader::Range16(x) => headers.add_range_16(x.variation, x.start, x.stop),
                    ReadHeader::LimitedCount8(x) => {
                        headers.add_one_byte_limited_count(x.variation, x.count)
                    }
                    ReadHeader::LimitedCount16(x) => {
                        headers.add_two_byte_limited_count(x.variation, x.count)
                    }
                };
            }
            let (p, rx) = Promise::one_shot();
            spawn_waiter(tok, rx, |r: Result<(), WriteError>| match r {
                Ok(()) => "ok".to_string(),
                Err(e) => format!("err {}", write_error_text(e)),
            });
            EmptyResponseTask::new(fc, headers, p).into()
        }
        "link_status" => {
            let (p, rx) = Promise::one_shot();
            spawn_waiter(tok, rx, |r: Result<(), TaskError>| match r {
                Ok(()) => "ok".to_string(),
                Err(e) => format!("err {}", task_error_text(e)),
            });
            Task::LinkStatus(p)
        }
        x => panic!("bad user request {}", x),
    }
}

/// what the REAL parser says about the object section of a received fragment
fn parser_verdict(data: &[u8]) -> &'static str {
    match ParsedFragment::parse(ParseOptions::default(), data) {
        Err(_) => "none",
        Ok(f) => match f.objects {
            Ok(_) => "ok",
            Err(_) => "bad",
        },
    }
}

async fn settle() {
    tokio::time::sleep(Duration::from_millis(1)).await;
    for _ in 0..16 {
        tokio::task::yield_now().await;
    }
}

/// lines of one op: true order, promise completions moved to the end
fn flush(obs: &mut Vec<String>) {
    let lines = vt::drain();
    let is_res = |l: &String| l.split(' ').nth(1) == Some("res");
    for l in lines.iter().filter(|l| !is_res(l)) {
        obs.push(l.clone());
    }
    for l in lines.iter().filter(|l| is_res(l)) {
        obs.push(l.clone());
    }
}

pub(crate) async fn run_master(script: &Script, obs: &mut Vec<String>) {
    crate::transport::mock::reader::verif_hook::clear();
    vt::start();

    let outstation = EndpointAddress::try_new(script.cfg_u64("addr", 1024) as u16).unwrap();
    let timeout = Timeout::from_millis(script.cfg_u64("timeout", 1000)).unwrap();

    let mut config = AssociationConfig::quiet();
    config.response_timeout = timeout;
    config.disable_unsol_classes = event_classes(script.cfg_u64("disable_unsol", 0));
    config.enable_unsol_classes = event_classes(script.cfg_u64("enable_unsol", 0));
    config.startup_integrity_classes = classes(script.cfg_u64("integrity", 0));
    config.auto_tasks_retry_strategy = RetryStrategy::new(
        Duration::from_millis(script.cfg_u64("retry_min", 1000)),
        Duration::from_millis(script.cfg_u64("retry_max", 10000)),
    );
    config.max_queued_user_requests = script.cfg_u64("maxq", 16) as usize;

    let task_config = MasterChannelConfig {
        master_address: EndpointAddress::try_new(1).unwrap(),
        decode_level: decode_level(script),
        tx_buffer_size: BufferSize::new(script.cfg_u64("txsize", 249) as usize).unwrap(),
        rx_buffer_size: BufferSize::min(),
    };

    let (mut tx, rx) = crate::util::channel::request_channel();
    let mut task = MasterTask::new(
        Enabled::Yes,
        LinkModes::serial(),
        ParseOptions::default(),
        task_config,
        rx,
    );
    task.set_rx_frame_info(FrameInfo::new(
        outstation,
        None,
        FrameType::Data,
        PhysAddr::None,
    ));

    let shared = Rc::new(RefCell::new(Shared {
        link_up: true,
        handle: None,
        stopped: false,
    }));
    let wake = Rc::new(tokio::sync::Notify::new());
    let runner_task = tokio::task::spawn_local(runner(task, shared.clone(), wake.clone()));

    // the association, added through the same message the public API sends
    let (promise, reply) = Promise::one_shot();
    tx.send(Message::Master(MasterMsg::AddAssociation(
        FragmentAddr {
            link: outstation,
            phys: PhysAddr::None,
        },
        config,
        Box::new(Rec),
        Box::new(NoTime),
        Box::new(Info),
        promise,
    )))
    .await
    .expect("master task gone");
    reply.await.expect("no reply").expect("association refused");
    settle().await;
    flush(obs);

    let mut tx = Some(tx);
    for (opno, op) in script.ops.iter().enumerate() {
        log(format!("op {}", opno));
        if shared.borrow().stopped || tx.is_none() {
            log("ignored".to_string());
            flush(obs);
            continue;
        }
        match op[0].as_str() {
            "rx" => {
                let from = EndpointAddress::raw(op[1].parse::<u16>().unwrap());
                let data = unhex(&op[2]);
                log(format!("pv {}", parser_verdict(&data)));
                let mut sh = shared.borrow_mut();
                match sh.handle.as_mut() {
                    Some(h) => {
                        crate::transport::mock::reader::verif_hook::push_frame_info(
                            FrameInfo::new(from, None, FrameType::Data, PhysAddr::None),
                        );
                        h.read(&data);
                    }
                    None => log("rx no_connection".to_string()),
                }
            }
            "sleep" => {
                tokio::time::sleep(Duration::from_millis(op[1].parse::<u64>().unwrap())).await;
            }
            "user" => {
                let task = user_task(op);
                tx.as_mut()
                    .unwrap()
                    .send(Message::Association(AssociationMsg {
                        address: outstation,
                        details: AssociationMsgType::QueueTask(task),
                    }))
                    .await
                    .expect("master task gone");
            }
            "disable" => {
                tx.as_mut()
                    .unwrap()
                    .send(Message::Master(MasterMsg::EnableCommunication(Enabled::No)))
                    .await
                    .expect("master task gone");
            }
            "enable" => {
                tx.as_mut()
                    .unwrap()
                    .send(Message::Master(MasterMsg::EnableCommunication(
                        Enabled::Yes,
                    )))
                    .await
                    .expect("master task gone");
            }
            "remove" => {
                tx.as_mut()
                    .unwrap()
                    .send(Message::Master(MasterMsg::RemoveAssociation(outstation)))
                    .await
                    .expect("master task gone");
            }
            "drop_io" => {
                let mut sh = shared.borrow_mut();
                match sh.handle.as_mut() {
                    Some(h) => h.read_error(std::io::ErrorKind::ConnectionReset),
                    None => {
                        sh.link_up = false;
                    }
                }
            }
            "connect" => {
                shared.borrow_mut().link_up = true;
                wake.notify_one();
            }
            "shutdown" => {
                // every handle of the public API holds a clone of this sender; dropping the
                // last one is how a master is shut down
                tx = None;
            }
            x => panic!("bad op {}", x),
        }
        settle().await;
        flush(obs);
    }
    vt::stop();
    crate::transport::mock::reader::verif_hook::clear();
    runner_task.abort();
    let _ = runner_task.await;
    obs.push("end".to_string());
}
