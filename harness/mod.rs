// Correspondence harness, compiled INTO dnp3's own test build through hook H1
// (`#[cfg(all(test, dnp3_verif))] #[path = "/verif/harness/mod.rs"] mod verif_harness;`).
//
// One entry point: the test `verif_run` reads the script file named by VERIF_SCRIPTS, executes
// every script against the real types of this crate and writes one trace per script to VERIF_OUT.
// Script and trace are line oriented (see /verif/DESIGN.md, Appendix A):
//
//   S <id> <engine> key=value ...        T <id>
//   <op> <args>                          <observation>
//   E                                    E
//
// The same script files are read by the extracted Coq model (/verif/ocaml/driver.ml); the two
// outputs are diffed textually.

#![allow(clippy::all)]
#![allow(unused)]

use std::collections::BTreeMap;
use std::fmt::Write as FmtWrite;

mod app;
mod conv;
mod db;
mod link;
mod master;
mod msched;
mod outstation;
mod pair;
mod tsync;

pub(crate) struct Script {
    pub(crate) id: String,
    pub(crate) engine: String,
    pub(crate) cfg: BTreeMap<String, String>,
    pub(crate) ops: Vec<Vec<String>>,
}

impl Script {
    pub(crate) fn cfg_str(&self, key: &str, default: &str) -> String {
        self.cfg
            .get(key)
            .cloned()
            .unwrap_or_else(|| default.to_string())
    }
    pub(crate) fn cfg_u64(&self, key: &str, default: u64) -> u64 {
        self.cfg
            .get(key)
            .map(|x| x.parse::<u64>().expect("bad integer in cfg"))
            .unwrap_or(default)
    }
}

pub(crate) fn unhex(s: &str) -> Vec<u8> {
    if s == "-" {
        return Vec::new();
    }
    let b = s.as_bytes();
    assert!(b.len() % 2 == 0, "odd hex length");
    let v = |c: u8| -> u8 {
        match c {
            b'0'..=b'9' => c - b'0',
            b'a'..=b'f' => c - b'a' + 10,
            b'A'..=b'F' => c - b'A' + 10,
            _ => panic!("bad hex digit"),
        }
    };
    b.chunks(2).map(|p| (v(p[0]) << 4) | v(p[1])).collect()
}

pub(crate) fn hex(data: &[u8]) -> String {
    if data.is_empty() {
        return "-".to_string();
    }
    let mut s = String::with_capacity(data.len() * 2);
    for b in data {
        write!(s, "{:02x}", b).unwrap();
    }
    s
}

fn parse_scripts(text: &str) -> Vec<Script> {
    let mut out = Vec::new();
    let mut cur: Option<Script> = None;
    for line in text.lines() {
        let line = line.trim();
        if line.is_empty() || line.starts_with('#') {
            continue;
        }
        let toks: Vec<String> = line.split_whitespace().map(|x| x.to_string()).collect();
        match toks[0].as_str() {
            "S" => {
                let mut cfg = BTreeMap::new();
                for kv in &toks[3..] {
                    let (k, v) = kv.split_once('=').expect("cfg token without '='");
                    cfg.insert(k.to_string(), v.to_string());
                }
                cur = Some(Script {
                    id: toks[1].clone(),
                    engine: toks[2].clone(),
                    cfg,
                    ops: Vec::new(),
                });
            }
            "E" => out.push(cur.take().expect("E without S")),
            _ => cur.as_mut().expect("op outside script").ops.push(toks),
        }
    }
    out
}

/// decode level selected by cfg key `decode` (0 = nothing .. 3 = everything)
pub(crate) fn decode_level(script: &Script) -> crate::decode::DecodeLevel {
    use crate::decode::*;
    match script.cfg_u64("decode", 0) {
        0 => DecodeLevel::nothing(),
        1 => DecodeLevel::new(
            AppDecodeLevel::Header,
            TransportDecodeLevel::Header,
            LinkDecodeLevel::Header,
            PhysDecodeLevel::Length,
        ),
        2 => DecodeLevel::new(
            AppDecodeLevel::ObjectHeaders,
            TransportDecodeLevel::Payload,
            LinkDecodeLevel::Payload,
            PhysDecodeLevel::Data,
        ),
        _ => DecodeLevel::new(
            AppDecodeLevel::ObjectValues,
            TransportDecodeLevel::Payload,
            LinkDecodeLevel::Payload,
            PhysDecodeLevel::Data,
        ),
    }
}

/// A subscriber that formats every event (so every `Display` behind the decode levels really
/// runs) and throws the text away.
struct ForcingSubscriber;

struct SinkVisitor(usize);

impl tracing::field::Visit for SinkVisitor {
    fn record_debug(&mut self, _field: &tracing::field::Field, value: &dyn std::fmt::Debug) {
        let s = format!("{:?}", value);
        self.0 += s.len();
    }
}

impl tracing::Subscriber for ForcingSubscriber {
    fn enabled(&self, _metadata: &tracing::Metadata<'_>) -> bool {
        true
    }
    fn new_span(&self, _span: &tracing::span::Attributes<'_>) -> tracing::span::Id {
        tracing::span::Id::from_u64(1)
    }
    fn record(&self, _span: &tracing::span::Id, _values: &tracing::span::Record<'_>) {}
    fn record_follows_from(&self, _span: &tracing::span::Id, _follows: &tracing::span::Id) {}
    fn event(&self, event: &tracing::Event<'_>) {
        let mut v = SinkVisitor(0);
        event.record(&mut v);
        std::hint::black_box(v.0);
    }
    fn enter(&self, _span: &tracing::span::Id) {}
    fn exit(&self, _span: &tracing::span::Id) {}
}

fn run_script(script: &Script) -> Vec<String> {
    let res = std::panic::catch_unwind(std::panic::AssertUnwindSafe(|| {
        let rt = tokio::runtime::Builder::new_current_thread()
            .enable_time()
            .start_paused(true)
            .build()
            .unwrap();
        let mut obs: Vec<String> = Vec::new();
        let local = tokio::task::LocalSet::new();
        let res = std::panic::catch_unwind(std::panic::AssertUnwindSafe(|| {
            local.block_on(&rt, async {
                match script.engine.as_str() {
                    "link" => link::run_link(script, &mut obs).await,
                    "layer" => link::run_layer(script, &mut obs).await,
                    "treader" => link::run_treader(script, &mut obs).await,
                    "twriter" => link::run_twriter(script, &mut obs).await,
                    "app" => app::run_app(script, &mut obs).await,
                    "outstation" => outstation::run_outstation(script, &mut obs).await,
                    "db" => db::run_db(script, &mut obs).await,
                    "master" => master::run_master(script, &mut obs).await,
                    "pair" => pair::run_pair(script, &mut obs).await,
                    "conv" => conv::run_conv(script, &mut obs).await,
                    "msched" => msched::run_msched(script, &mut obs).await,
                    "tsync" => tsync::run_tsync(script, &mut obs).await,
                    other => obs.push(format!("unknown-engine {}", other)),
                }
            })
        }));
        if let Err(e) = res {
            let text = panic_text(&e);
            if text.starts_with("Expecting_a_read_for_at_least") {
                // the mock refuses a scripted read that is larger than the slice the reader offers
                obs.push("overflow".to_string());
                obs.push("end".to_string());
            } else {
                obs.push(format!("panic {}", text));
            }
        }
        obs
    }));
    match res {
        Ok(obs) => obs,
        Err(e) => vec![format!("panic {}", panic_text(&e))],
    }
}

fn panic_text(e: &Box<dyn std::any::Any + Send>) -> String {
    let s = if let Some(s) = e.downcast_ref::<&str>() {
        s.to_string()
    } else if let Some(s) = e.downcast_ref::<String>() {
        s.clone()
    } else {
        "unknown".to_string()
    };
    s.replace(|c: char| c.is_whitespace(), "_")
}

#[test]
fn verif_run() {
    let path = match std::env::var("VERIF_SCRIPTS") {
        Ok(p) => p,
        Err(_) => return, // nothing to do when run as part of the ordinary suite
    };
    let out_path = std::env::var("VERIF_OUT").expect("VERIF_OUT not set");
    let text = std::fs::read_to_string(&path).expect("cannot read VERIF_SCRIPTS");
    let scripts = parse_scripts(&text);
    // keep panic messages out of the trace files, they are recorded as observations
    std::panic::set_hook(Box::new(|_| {}));
    let _guard = tracing::subscriber::set_default(ForcingSubscriber);
    let mut out = String::new();
    for s in &scripts {
        let obs = run_script(s);
        writeln!(out, "T {}", s.id).unwrap();
        for o in obs {
            writeln!(out, "{}", o).unwrap();
        }
        writeln!(out, "E").unwrap();
    }
    std::fs::write(&out_path, out).expect("cannot write VERIF_OUT");
}
