// Engine `conv`; filled in by a later step.
use super::Script;

pub(crate) async fn run_conv(script: &Script, obs: &mut Vec<String>) {
    let _ = script;
    obs.push("unimplemented".to_string());
}
