// Engine `conv` (C10): one op = one trip of measurements from an outstation database to the master's
// ReadHandler, inside one process, through the PRODUCTION code:
//
//   outstation::database::Database  (add / update2 / select_by_header / select_event_classes)
//   -> write_response_headers / write_events_only   (RangeWriter, EventWriter, ToVariation, write_cto)
//   -> app::parse::parser::HeaderCollection::parse  (FunctionCode::Response)
//   -> master::extract::extract_measurements        (running CTO, From<GroupXVarY>, to_measurement)
//   -> a recording ReadHandler
//
//   st <type> <selector> <n> { <index> <svar> <value> <flags> <time> } x n
//        fresh database, the n points (class none), each updated once, then one READ selection:
//        selector  c0               class 0 (g60v1, all objects)
//                  g<G>v<V>         that static variation, qualifier 0x06 (V = 0: default variation)
//                  g<G>v<V>:a-b     that variation, qualifier 0x01 range a..b
//   ev <type> <selector> <n> { <index> <evar> <value> <flags> <time> } x n
//        fresh database, one point per distinct index (class 1, event variation of its first
//        occurrence), every entry is one forced event, in order, then
//        selector  c1               select_event_classes(class 1) + write_events_only (unsolicited path)
//                  r1               READ g60v2 all + write_response_headers
//                  g<G>v<V>         READ that event variation, qualifier 0x06 (V = 0: default)
//
//   type:  bi dbi bos ctr fctr ai aos oct
//   value: bi/bos 0|1, dbi 0..3, ctr/fctr decimal u32, ai/aos 16 hex digits (f64 bit pattern), oct hex
//   flags: decimal octet        time:  n | s<ms> | u<ms>
//
// Observations per trip:
//   raw <hex>                                    the object headers written by the outstation
//   hdr <group> <var> <qualifier> <is_event> <has_flags>     one per ReadHandler callback
//   m <type> <index> <value> <flags> <time>      one per measurement handed to the handler
//   (or `parse-error` when the master's parser rejects the bytes)

use super::{hex, unhex, Script};
use crate::app::measurement::*;
use crate::app::parse::options::ParseOptions;
use crate::app::parse::parser::HeaderCollection;
use crate::app::{ControlField, FunctionCode, Iin, ResponseFunction, ResponseHeader, Timestamp};
use crate::master::{EventClasses, HeaderInfo, ReadHandler, ReadType};
use crate::outstation::database::read::ReadHeader;
use crate::outstation::database::*;
use scursor::WriteCursor;

fn num(s: &str) -> u64 {
    s.parse::<u64>().expect("bad number")
}

fn gv(s: &str) -> (u8, u8) {
    let s = s.strip_prefix('g').expect("variation token");
    let (g, v) = s.split_once('v').expect("variation token");
    (g.parse().unwrap(), v.parse().unwrap())
}

fn time(s: &str) -> Option<Time> {
    if s == "n" {
        None
    } else if let Some(x) = s.strip_prefix('s') {
        Some(Time::Synchronized(Timestamp::new(num(x))))
    } else if let Some(x) = s.strip_prefix('u') {
        Some(Time::Unsynchronized(Timestamp::new(num(x))))
    } else {
        panic!("bad time {}", s)
    }
}

fn time_text(t: Option<Time>) -> String {
    match t {
        None => "n".to_string(),
        Some(Time::Synchronized(x)) => format!("s{}", x.raw_value()),
        Some(Time::Unsynchronized(x)) => format!("u{}", x.raw_value()),
    }
}

fn f64_of(s: &str) -> f64 {
    f64::from_bits(u64::from_str_radix(s, 16).expect("bad f64 bits"))
}

fn dbit(s: &str) -> DoubleBit {
    match s {
        "0" => DoubleBit::Intermediate,
        "1" => DoubleBit::DeterminedOff,
        "2" => DoubleBit::DeterminedOn,
        "3" => DoubleBit::Indeterminate,
        x => panic!("bad double bit {}", x),
    }
}

fn s_bi(s: &str) -> StaticBinaryInputVariation {
    match gv(s) {
        (1, 1) => StaticBinaryInputVariation::Group1Var1,
        (1, 2) => StaticBinaryInputVariation::Group1Var2,
        _ => panic!("bad svar {}", s),
    }
}
fn e_bi(s: &str) -> EventBinaryInputVariation {
    match gv(s) {
        (2, 1) => EventBinaryInputVariation::Group2Var1,
        (2, 2) => EventBinaryInputVariation::Group2Var2,
        (2, 3) => EventBinaryInputVariation::Group2Var3,
        _ => panic!("bad evar {}", s),
    }
}
fn s_dbi(s: &str) -> StaticDoubleBitBinaryInputVariation {
    match gv(s) {
        (3, 1) => StaticDoubleBitBinaryInputVariation::Group3Var1,
        (3, 2) => StaticDoubleBitBinaryInputVariation::Group3Var2,
        _ => panic!("bad svar {}", s),
    }
}
fn e_dbi(s: &str) -> EventDoubleBitBinaryInputVariation {
    match gv(s) {
        (4, 1) => EventDoubleBitBinaryInputVariation::Group4Var1,
        (4, 2) => EventDoubleBitBinaryInputVariation::Group4Var2,
        (4, 3) => EventDoubleBitBinaryInputVariation::Group4Var3,
        _ => panic!("bad evar {}", s),
    }
}
fn s_bos(s: &str) -> StaticBinaryOutputStatusVariation {
    match gv(s) {
        (10, 1) => StaticBinaryOutputStatusVariation::Group10Var1,
        (10, 2) => StaticBinaryOutputStatusVariation::Group10Var2,
        _ => panic!("bad svar {}", s),
    }
}
fn e_bos(s: &str) -> EventBinaryOutputStatusVariation {
    match gv(s) {
        (11, 1) => EventBinaryOutputStatusVariation::Group11Var1,
        (11, 2) => EventBinaryOutputStatusVariation::Group11Var2,
        _ => panic!("bad evar {}", s),
    }
}
fn s_ctr(s: &str) -> StaticCounterVariation {
    match gv(s) {
        (20, 1) => StaticCounterVariation::Group20Var1,
        (20, 2) => StaticCounterVariation::Group20Var2,
        (20, 5) => StaticCounterVariation::Group20Var5,
        (20, 6) => StaticCounterVariation::Group20Var6,
        _ => panic!("bad svar {}", s),
    }
}
fn e_ctr(s: &str) -> EventCounterVariation {
    match gv(s) {
        (22, 1) => EventCounterVariation::Group22Var1,
        (22, 2) => EventCounterVariation::Group22Var2,
        (22, 5) => EventCounterVariation::Group22Var5,
        (22, 6) => EventCounterVariation::Group22Var6,
        _ => panic!("bad evar {}", s),
    }
}
fn s_fctr(s: &str) -> StaticFrozenCounterVariation {
    match gv(s) {
        (21, 1) => StaticFrozenCounterVariation::Group21Var1,
        (21, 2) => StaticFrozenCounterVariation::Group21Var2,
        (21, 5) => StaticFrozenCounterVariation::Group21Var5,
        (21, 6) => StaticFrozenCounterVariation::Group21Var6,
        (21, 9) => StaticFrozenCounterVariation::Group21Var9,
        (21, 10) => StaticFrozenCounterVariation::Group21Var10,
        _ => panic!("bad svar {}", s),
    }
}
fn e_fctr(s: &str) -> EventFrozenCounterVariation {
    match gv(s) {
        (23, 1) => EventFrozenCounterVariation::Group23Var1,
        (23, 2) => EventFrozenCounterVariation::Group23Var2,
        (23, 5) => EventFrozenCounterVariation::Group23Var5,
        (23, 6) => EventFrozenCounterVariation::Group23Var6,
        _ => panic!("bad evar {}", s),
    }
}
fn s_ai(s: &str) -> StaticAnalogInputVariation {
    match gv(s) {
        (30, 1) => StaticAnalogInputVariation::Group30Var1,
        (30, 2) => StaticAnalogInputVariation::Group30Var2,
        (30, 3) => StaticAnalogInputVariation::Group30Var3,
        (30, 4) => StaticAnalogInputVariation::Group30Var4,
        (30, 5) => StaticAnalogInputVariation::Group30Var5,
        (30, 6) => StaticAnalogInputVariation::Group30Var6,
        _ => panic!("bad svar {}", s),
    }
}
fn e_ai(s: &str) -> EventAnalogInputVariation {
    match gv(s) {
        (32, 1) => EventAnalogInputVariation::Group32Var1,
        (32, 2) => EventAnalogInputVariation::Group32Var2,
        (32, 3) => EventAnalogInputVariation::Group32Var3,
        (32, 4) => EventAnalogInputVariation::Group32Var4,
        (32, 5) => EventAnalogInputVariation::Group32Var5,
        (32, 6) => EventAnalogInputVariation::Group32Var6,
        (32, 7) => EventAnalogInputVariation::Group32Var7,
        (32, 8) => EventAnalogInputVariation::Group32Var8,
        _ => panic!("bad evar {}", s),
    }
}
fn s_aos(s: &str) -> StaticAnalogOutputStatusVariation {
    match gv(s) {
        (40, 1) => StaticAnalogOutputStatusVariation::Group40Var1,
        (40, 2) => StaticAnalogOutputStatusVariation::Group40Var2,
        (40, 3) => StaticAnalogOutputStatusVariation::Group40Var3,
        (40, 4) => StaticAnalogOutputStatusVariation::Group40Var4,
        _ => panic!("bad svar {}", s),
    }
}
fn e_aos(s: &str) -> EventAnalogOutputStatusVariation {
    match gv(s) {
        (42, 1) => EventAnalogOutputStatusVariation::Group42Var1,
        (42, 2) => EventAnalogOutputStatusVariation::Group42Var2,
        (42, 3) => EventAnalogOutputStatusVariation::Group42Var3,
        (42, 4) => EventAnalogOutputStatusVariation::Group42Var4,
        (42, 5) => EventAnalogOutputStatusVariation::Group42Var5,
        (42, 6) => EventAnalogOutputStatusVariation::Group42Var6,
        (42, 7) => EventAnalogOutputStatusVariation::Group42Var7,
        (42, 8) => EventAnalogOutputStatusVariation::Group42Var8,
        _ => panic!("bad evar {}", s),
    }
}

/// default variations used for the half of a point's configuration that a trip does not exercise
const DEF_S: [(&str, &str); 7] = [
    ("bi", "g1v2"),
    ("dbi", "g3v2"),
    ("bos", "g10v2"),
    ("ctr", "g20v1"),
    ("fctr", "g21v1"),
    ("ai", "g30v1"),
    ("aos", "g40v1"),
];
const DEF_E: [(&str, &str); 7] = [
    ("bi", "g2v1"),
    ("dbi", "g4v1"),
    ("bos", "g11v1"),
    ("ctr", "g22v1"),
    ("fctr", "g23v1"),
    ("ai", "g32v1"),
    ("aos", "g42v1"),
];

fn lookup(table: &[(&'static str, &'static str)], ty: &str) -> &'static str {
    table.iter().find(|x| x.0 == ty).map(|x| x.1).unwrap_or("-")
}

fn add_point(
    db: &mut Database,
    ty: &str,
    idx: u16,
    class: Option<EventClass>,
    svar: &str,
    evar: &str,
) -> bool {
    match ty {
        "bi" => db.add(
            idx,
            class,
            BinaryInputConfig {
                s_var: s_bi(svar),
                e_var: e_bi(evar),
            },
        ),
        "dbi" => db.add(
            idx,
            class,
            DoubleBitBinaryInputConfig {
                s_var: s_dbi(svar),
                e_var: e_dbi(evar),
            },
        ),
        "bos" => db.add(
            idx,
            class,
            BinaryOutputStatusConfig {
                s_var: s_bos(svar),
                e_var: e_bos(evar),
            },
        ),
        "ctr" => db.add(
            idx,
            class,
            CounterConfig {
                s_var: s_ctr(svar),
                e_var: e_ctr(evar),
                deadband: 0,
            },
        ),
        "fctr" => db.add(
            idx,
            class,
            FrozenCounterConfig {
                s_var: s_fctr(svar),
                e_var: e_fctr(evar),
                deadband: 0,
            },
        ),
        "ai" => db.add(
            idx,
            class,
            AnalogInputConfig {
                s_var: s_ai(svar),
                e_var: e_ai(evar),
                deadband: 0.0,
            },
        ),
        "aos" => db.add(
            idx,
            class,
            AnalogOutputStatusConfig {
                s_var: s_aos(svar),
                e_var: e_aos(evar),
                deadband: 0.0,
            },
        ),
        "oct" => db.add(idx, class, OctetStringConfig),
        x => panic!("bad type {}", x),
    }
}

fn update_point(
    db: &mut Database,
    ty: &str,
    idx: u16,
    v: &str,
    flags: u8,
    t: Option<Time>,
    opts: UpdateOptions,
) -> UpdateInfo {
    let flags = Flags::new(flags);
    match ty {
        "bi" => db.update2(
            idx,
            &BinaryInput {
                value: v == "1",
                flags,
                time: t,
            },
            opts,
        ),
        "dbi" => db.update2(
            idx,
            &DoubleBitBinaryInput {
                value: dbit(v),
                flags,
                time: t,
            },
            opts,
        ),
        "bos" => db.update2(
            idx,
            &BinaryOutputStatus {
                value: v == "1",
                flags,
                time: t,
            },
            opts,
        ),
        "ctr" => db.update2(
            idx,
            &Counter {
                value: num(v) as u32,
                flags,
                time: t,
            },
            opts,
        ),
        "fctr" => db.update2(
            idx,
            &FrozenCounter {
                value: num(v) as u32,
                flags,
                time: t,
            },
            opts,
        ),
        "ai" => db.update2(
            idx,
            &AnalogInput {
                value: f64_of(v),
                flags,
                time: t,
            },
            opts,
        ),
        "aos" => db.update2(
            idx,
            &AnalogOutputStatus {
                value: f64_of(v),
                flags,
                time: t,
            },
            opts,
        ),
        "oct" => db.update2(
            idx,
            &OctetString::new(&unhex(v)).expect("octet string"),
            opts,
        ),
        x => panic!("bad type {}", x),
    }
}

/// one object header of a READ request, as the master would send it
fn request_header(g: u8, v: u8, range: Option<(u16, u16)>) -> Vec<u8> {
    let mut out = vec![g, v];
    match range {
        None => out.push(0x06),
        Some((a, b)) => {
            out.push(0x01);
            out.extend_from_slice(&a.to_le_bytes());
            out.extend_from_slice(&b.to_le_bytes());
        }
    }
    out
}

/// parse a request header with the crate's own parser, map it with `ReadHeader::get` and select
fn select(db: &mut Database, bytes: &[u8], obs: &mut Vec<String>) -> bool {
    match HeaderCollection::parse(ParseOptions::default(), FunctionCode::Read, bytes) {
        Err(_) => {
            obs.push("sel badreq".to_string());
            false
        }
        Ok(headers) => {
            let mut ok = true;
            for header in headers.iter() {
                match ReadHeader::get(&header) {
                    None => {
                        obs.push("sel unsupported".to_string());
                        ok = false;
                    }
                    Some(x) => {
                        let iin2 = db.inner.select_by_header(x);
                        if iin2.value != 0 {
                            obs.push(format!("sel iin2 {}", iin2.value));
                        }
                    }
                }
            }
            ok
        }
    }
}

struct Recorder {
    lines: Vec<String>,
}

impl Recorder {
    fn hdr(&mut self, info: HeaderInfo) {
        let (g, v) = info.variation.to_group_and_var();
        self.lines.push(format!(
            "hdr {} {} {} {} {}",
            g,
            v,
            info.qualifier.as_u8(),
            u8::from(info.is_event),
            u8::from(info.has_flags)
        ));
    }
}

impl ReadHandler for Recorder {
    fn handle_binary_input(
        &mut self,
        info: HeaderInfo,
        iter: &mut dyn Iterator<Item = (BinaryInput, u16)>,
    ) {
        self.hdr(info);
        for (x, i) in iter {
            self.lines.push(format!(
                "m bi {} {} {} {}",
                i,
                u8::from(x.value),
                x.flags.value,
                time_text(x.time)
            ));
        }
    }
    fn handle_double_bit_binary_input(
        &mut self,
        info: HeaderInfo,
        iter: &mut dyn Iterator<Item = (DoubleBitBinaryInput, u16)>,
    ) {
        self.hdr(info);
        for (x, i) in iter {
            self.lines.push(format!(
                "m dbi {} {} {} {}",
                i,
                x.value.to_byte(),
                x.flags.value,
                time_text(x.time)
            ));
        }
    }
    fn handle_binary_output_status(
        &mut self,
        info: HeaderInfo,
        iter: &mut dyn Iterator<Item = (BinaryOutputStatus, u16)>,
    ) {
        self.hdr(info);
        for (x, i) in iter {
            self.lines.push(format!(
                "m bos {} {} {} {}",
                i,
                u8::from(x.value),
                x.flags.value,
                time_text(x.time)
            ));
        }
    }
    fn handle_counter(&mut self, info: HeaderInfo, iter: &mut dyn Iterator<Item = (Counter, u16)>) {
        self.hdr(info);
        for (x, i) in iter {
            self.lines.push(format!(
                "m ctr {} {} {} {}",
                i,
                x.value,
                x.flags.value,
                time_text(x.time)
            ));
        }
    }
    fn handle_frozen_counter(
        &mut self,
        info: HeaderInfo,
        iter: &mut dyn Iterator<Item = (FrozenCounter, u16)>,
    ) {
        self.hdr(info);
        for (x, i) in iter {
            self.lines.push(format!(
                "m fctr {} {} {} {}",
                i,
                x.value,
                x.flags.value,
                time_text(x.time)
            ));
        }
    }
    fn handle_analog_input(
        &mut self,
        info: HeaderInfo,
        iter: &mut dyn Iterator<Item = (AnalogInput, u16)>,
    ) {
        self.hdr(info);
        for (x, i) in iter {
            self.lines.push(format!(
                "m ai {} {:016x} {} {}",
                i,
                x.value.to_bits(),
                x.flags.value,
                time_text(x.time)
            ));
        }
    }
    fn handle_frozen_analog_input(
        &mut self,
        info: HeaderInfo,
        iter: &mut dyn Iterator<Item = (FrozenAnalogInput, u16)>,
    ) {
        self.hdr(info);
        for (x, i) in iter {
            self.lines.push(format!(
                "m fai {} {:016x} {} {}",
                i,
                x.value.to_bits(),
                x.flags.value,
                time_text(x.time)
            ));
        }
    }
    fn handle_analog_output_status(
        &mut self,
        info: HeaderInfo,
        iter: &mut dyn Iterator<Item = (AnalogOutputStatus, u16)>,
    ) {
        self.hdr(info);
        for (x, i) in iter {
            self.lines.push(format!(
                "m aos {} {:016x} {} {}",
                i,
                x.value.to_bits(),
                x.flags.value,
                time_text(x.time)
            ));
        }
    }
    fn handle_octet_string<'a>(
        &mut self,
        info: HeaderInfo,
        iter: &'a mut dyn Iterator<Item = (&'a [u8], u16)>,
    ) {
        self.hdr(info);
        for (x, i) in iter {
            self.lines.push(format!("m oct {} {} 0 n", i, hex(x)));
        }
    }
}

/// the master's half of the trip: parse the object headers of a response and extract
async fn master_side(bytes: &[u8], unsolicited: bool, obs: &mut Vec<String>) {
    obs.push(format!("raw {}", hex(bytes)));
    let (read_type, func) = if unsolicited {
        (ReadType::Unsolicited, ResponseFunction::UnsolicitedResponse)
    } else {
        (ReadType::SinglePoll, ResponseFunction::Response)
    };
    let fc = if unsolicited {
        FunctionCode::UnsolicitedResponse
    } else {
        FunctionCode::Response
    };
    match HeaderCollection::parse(ParseOptions::default(), fc, bytes) {
        Err(_) => obs.push("parse-error".to_string()),
        Ok(objects) => {
            let header = ResponseHeader::new(ControlField::from(0xC0), func, Iin::default());
            let mut rec = Recorder { lines: Vec::new() };
            crate::master::extract::extract_measurements(read_type, header, objects, &mut rec)
                .await;
            obs.append(&mut rec.lines);
        }
    }
}

const BUF: usize = 16384;

fn parse_selector(s: &str) -> (u8, u8, Option<(u16, u16)>) {
    match s.split_once(':') {
        None => {
            let (g, v) = gv(s);
            (g, v, None)
        }
        Some((a, r)) => {
            let (g, v) = gv(a);
            let (lo, hi) = r.split_once('-').expect("range");
            (g, v, Some((num(lo) as u16, num(hi) as u16)))
        }
    }
}

pub(crate) async fn run_conv(script: &Script, obs: &mut Vec<String>) {
    for op in &script.ops {
        let kind = op[0].as_str();
        let ty = op[1].as_str();
        let sel = op[2].as_str();
        let n = num(&op[3]) as usize;
        assert!(op.len() == 4 + 5 * n, "entry count does not match");
        let entries: Vec<&[String]> = (0..n).map(|k| &op[4 + 5 * k..9 + 5 * k]).collect();
        match kind {
            "st" => {
                let mut db = Database::new(
                    None,
                    ClassZeroConfig::new(true, true, true, true, true, true, true, true),
                    EventBufferConfig::no_events(),
                );
                for e in &entries {
                    let idx = num(&e[0]) as u16;
                    if !add_point(&mut db, ty, idx, None, &e[1], lookup(&DEF_E, ty)) {
                        obs.push(format!("add-failed {}", idx));
                        continue;
                    }
                    let info = update_point(
                        &mut db,
                        ty,
                        idx,
                        &e[2],
                        num(&e[3]) as u8,
                        time(&e[4]),
                        UpdateOptions::detect_event(),
                    );
                    if info != UpdateInfo::NoEvent {
                        obs.push(format!("update {:?}", info).replace(' ', "_"));
                    }
                }
                let req = if sel == "c0" {
                    request_header(60, 1, None)
                } else {
                    let (g, v, r) = parse_selector(sel);
                    request_header(g, v, r)
                };
                select(&mut db, &req, obs);
                let mut buf = vec![0u8; BUF];
                let mut cursor = WriteCursor::new(&mut buf);
                let info = db.inner.write_response_headers(&mut cursor);
                if !info.complete {
                    obs.push("incomplete".to_string());
                }
                let bytes = cursor.written().to_vec();
                master_side(&bytes, false, obs).await;
            }
            "ev" => {
                let max = (n as u16).max(1);
                let mut db = Database::new(
                    None,
                    ClassZeroConfig::new(true, true, true, true, true, true, true, true),
                    EventBufferConfig::all_types(max),
                );
                let mut seen: Vec<u16> = Vec::new();
                for e in &entries {
                    let idx = num(&e[0]) as u16;
                    if !seen.contains(&idx) {
                        seen.push(idx);
                        if !add_point(
                            &mut db,
                            ty,
                            idx,
                            Some(EventClass::Class1),
                            lookup(&DEF_S, ty),
                            &e[1],
                        ) {
                            obs.push(format!("add-failed {}", idx));
                        }
                    }
                    let info = update_point(
                        &mut db,
                        ty,
                        idx,
                        &e[2],
                        num(&e[3]) as u8,
                        time(&e[4]),
                        UpdateOptions::new(true, EventMode::Force),
                    );
                    match info {
                        UpdateInfo::Created(_) => {}
                        x => obs.push(format!("update {:?}", x).replace(' ', "_")),
                    }
                }
                let mut buf = vec![0u8; BUF];
                let mut cursor = WriteCursor::new(&mut buf);
                let unsolicited = sel == "c1";
                if unsolicited {
                    let k = db
                        .inner
                        .select_event_classes(EventClasses::new(true, false, false));
                    if k != n {
                        obs.push(format!("selected {}", k));
                    }
                    let w = db.inner.write_events_only(&mut cursor);
                    if w != n {
                        obs.push(format!("written {}", w));
                    }
                } else {
                    let req = if sel == "r1" {
                        request_header(60, 2, None)
                    } else {
                        let (g, v, r) = parse_selector(sel);
                        request_header(g, v, r)
                    };
                    select(&mut db, &req, obs);
                    let info = db.inner.write_response_headers(&mut cursor);
                    if !info.complete {
                        obs.push("incomplete".to_string());
                    }
                }
                let bytes = cursor.written().to_vec();
                master_side(&bytes, unsolicited, obs).await;
            }
            x => panic!("bad op {}", x),
        }
    }
    obs.push("end".to_string());
}
