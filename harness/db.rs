// Engine `db`; filled in by a later step.
use super::Script;

pub(crate) async fn run_db(script: &Script, obs: &mut Vec<String>) {
    let _ = script;
    obs.push("unimplemented".to_string());
}
