// Engine `db` (C03 event buffer, C13 counters / class bits, C11 static snapshot series).
//
// Drives the PRODUCTION outstation database (`outstation::database::Database`, whose `inner` is
// `details::database::Database` = `StaticDatabase` + `EventBuffer`) without a session:
//
//   cfg   mb mdb mbos mc mfc ma maos mo   per-type event buffer sizes (default 0)
//         c0=<8 x 0|1>                    class-zero configuration (bi dbi bos ctr fctr ai aos oct)
//         maxsel=<n>                      max_read_selection (default: none)
//
//   add <type> <index> <class 0..3> <svar> <evar> <deadband>     -> add 0|1
//   rm <type> <index>                                            -> rm 0|1
//   upd <type> <index> <value> <flags> <time> <mode>             -> upd nopoint|noevent|created <id>|overflow <created> <discarded>
//   updf <type> <index> <flags> <time> <mode>                    -> (same observations, prefix updf)
//   get <type> <index>                                           -> get none | get <value> <flags> <time>
//   sel <group> <var> all | c8 <n> | c16 <n> | r8 <a> <b> | r16 <a> <b>
//                                                                -> sel <iin2> | sel unsupported | sel badreq
//        one object header of a READ request: built as bytes, parsed by the crate's own parser,
//        mapped by `ReadHeader::get` (database/read.rs) and passed to `select_by_header`
//   selm <c1c2c3>                                                -> selm <count>    (select_event_classes, the unsolicited path)
//   wr <budget>                                                  -> wr <hex> <has_events> <complete>   (write_response_headers)
//   wre <budget>                                                 -> wre <hex> <count>                 (write_events_only)
//   clr                                                          -> clr <ids|-> | <c1> <c2> <c3> | <8 type counts>
//   rst                                                          -> rst
//   iin                                                          -> iin <c1><c2><c3> <overflown>
//
//   type:  bi dbi bos ctr fctr ai aos oct
//   value: bi/bos 0|1, dbi 0..3, ctr/fctr decimal u32, ai/aos 16 hex digits (f64 bit pattern), oct hex
//   time:  n | s<ms> | u<ms>       mode: d|f|s (detect, force, suppress) followed by 1|0 (update_static)
//   svar/evar: g<group>v<var>      deadband: decimal u32 (ctr, fctr), 16 hex digits (ai, aos), `-` otherwise

use super::{hex, unhex, Script};
use crate::app::measurement::*;
use crate::app::parse::options::ParseOptions;
use crate::app::parse::parser::HeaderCollection;
use crate::app::{FunctionCode, MaybeAsync, Timestamp};
use crate::master::EventClasses;
use crate::outstation::database::read::ReadHeader;
use crate::outstation::database::*;
use crate::outstation::{BufferState, OutstationApplication};
use scursor::WriteCursor;

struct App {
    cleared: Vec<u64>,
}

impl OutstationApplication for App {
    fn event_cleared(&mut self, id: u64) {
        self.cleared.push(id);
    }
    fn end_confirm(&mut self, _state: BufferState) -> MaybeAsync<()> {
        MaybeAsync::ready(())
    }
}

fn num(s: &str) -> u64 {
    s.parse::<u64>().expect("bad number")
}

fn gv(s: &str) -> (u8, u8) {
    let s = s.strip_prefix('g').expect("variation token");
    let (g, v) = s.split_once('v').expect("variation token");
    (g.parse().unwrap(), v.parse().unwrap())
}

fn class(s: &str) -> Option<EventClass> {
    match s {
        "0" => None,
        "1" => Some(EventClass::Class1),
        "2" => Some(EventClass::Class2),
        "3" => Some(EventClass::Class3),
        x => panic!("bad class {}", x),
    }
}

fn time(s: &str) -> Option<Time> {
    if s == "n" {
        None
    } else if let Some(x) = s.strip_prefix('s') {
        Some(Time::Synchronized(Timestamp::new(num(x))))
    } else if let Some(x) = s.strip_prefix('u') {
        Some(Time::Unsynchronized(Timestamp::new(num(x))))
    } else {
        panic!("bad time {}", s)
    }
}

fn time_text(t: Option<Time>) -> String {
    match t {
        None => "n".to_string(),
        Some(Time::Synchronized(x)) => format!("s{}", x.raw_value()),
        Some(Time::Unsynchronized(x)) => format!("u{}", x.raw_value()),
    }
}

fn mode(s: &str) -> UpdateOptions {
    let b = s.as_bytes();
    let m = match b[0] {
        b'd' => EventMode::Detect,
        b'f' => EventMode::Force,
        b's' => EventMode::Suppress,
        _ => panic!("bad mode"),
    };
    UpdateOptions::new(b[1] == b'1', m)
}

fn f64_of(s: &str) -> f64 {
    f64::from_bits(u64::from_str_radix(s, 16).expect("bad f64 bits"))
}

fn dbit(s: &str) -> DoubleBit {
    match s {
        "0" => DoubleBit::Intermediate,
        "1" => DoubleBit::DeterminedOff,
        "2" => DoubleBit::DeterminedOn,
        "3" => DoubleBit::Indeterminate,
        x => panic!("bad double bit {}", x),
    }
}

fn s_bi(s: &str) -> StaticBinaryInputVariation {
    match gv(s) {
        (1, 1) => StaticBinaryInputVariation::Group1Var1,
        (1, 2) => StaticBinaryInputVariation::Group1Var2,
        _ => panic!("bad svar {}", s),
    }
}
fn e_bi(s: &str) -> EventBinaryInputVariation {
    match gv(s) {
        (2, 1) => EventBinaryInputVariation::Group2Var1,
        (2, 2) => EventBinaryInputVariation::Group2Var2,
        (2, 3) => EventBinaryInputVariation::Group2Var3,
        _ => panic!("bad evar {}", s),
    }
}
fn s_dbi(s: &str) -> StaticDoubleBitBinaryInputVariation {
    match gv(s) {
        (3, 1) => StaticDoubleBitBinaryInputVariation::Group3Var1,
        (3, 2) => StaticDoubleBitBinaryInputVariation::Group3Var2,
        _ => panic!("bad svar {}", s),
    }
}
fn e_dbi(s: &str) -> EventDoubleBitBinaryInputVariation {
    match gv(s) {
        (4, 1) => EventDoubleBitBinaryInputVariation::Group4Var1,
        (4, 2) => EventDoubleBitBinaryInputVariation::Group4Var2,
        (4, 3) => EventDoubleBitBinaryInputVariation::Group4Var3,
        _ => panic!("bad evar {}", s),
    }
}
fn s_bos(s: &str) -> StaticBinaryOutputStatusVariation {
    match gv(s) {
        (10, 1) => StaticBinaryOutputStatusVariation::Group10Var1,
        (10, 2) => StaticBinaryOutputStatusVariation::Group10Var2,
        _ => panic!("bad svar {}", s),
    }
}
fn e_bos(s: &str) -> EventBinaryOutputStatusVariation {
    match gv(s) {
        (11, 1) => EventBinaryOutputStatusVariation::Group11Var1,
        (11, 2) => EventBinaryOutputStatusVariation::Group11Var2,
        _ => panic!("bad evar {}", s),
    }
}
fn s_ctr(s: &str) -> StaticCounterVariation {
    match gv(s) {
        (20, 1) => StaticCounterVariation::Group20Var1,
        (20, 2) => StaticCounterVariation::Group20Var2,
        (20, 5) => StaticCounterVariation::Group20Var5,
        (20, 6) => StaticCounterVariation::Group20Var6,
        _ => panic!("bad svar {}", s),
    }
}
fn e_ctr(s: &str) -> EventCounterVariation {
    match gv(s) {
        (22, 1) => EventCounterVariation::Group22Var1,
        (22, 2) => EventCounterVariation::Group22Var2,
        (22, 5) => EventCounterVariation::Group22Var5,
        (22, 6) => EventCounterVariation::Group22Var6,
        _ => panic!("bad evar {}", s),
    }
}
fn s_fctr(s: &str) -> StaticFrozenCounterVariation {
    match gv(s) {
        (21, 1) => StaticFrozenCounterVariation::Group21Var1,
        (21, 2) => StaticFrozenCounterVariation::Group21Var2,
        (21, 5) => StaticFrozenCounterVariation::Group21Var5,
        (21, 6) => StaticFrozenCounterVariation::Group21Var6,
        (21, 9) => StaticFrozenCounterVariation::Group21Var9,
        (21, 10) => StaticFrozenCounterVariation::Group21Var10,
        _ => panic!("bad svar {}", s),
    }
}
fn e_fctr(s: &str) -> EventFrozenCounterVariation {
    match gv(s) {
        (23, 1) => EventFrozenCounterVariation::Group23Var1,
        (23, 2) => EventFrozenCounterVariation::Group23Var2,
        (23, 5) => EventFrozenCounterVariation::Group23Var5,
        (23, 6) => EventFrozenCounterVariation::Group23Var6,
        _ => panic!("bad evar {}", s),
    }
}
fn s_ai(s: &str) -> StaticAnalogInputVariation {
    match gv(s) {
        (30, 1) => StaticAnalogInputVariation::Group30Var1,
        (30, 2) => StaticAnalogInputVariation::Group30Var2,
        (30, 3) => StaticAnalogInputVariation::Group30Var3,
        (30, 4) => StaticAnalogInputVariation::Group30Var4,
        (30, 5) => StaticAnalogInputVariation::Group30Var5,
        (30, 6) => StaticAnalogInputVariation::Group30Var6,
        _ => panic!("bad svar {}", s),
    }
}
fn e_ai(s: &str) -> EventAnalogInputVariation {
    match gv(s) {
        (32, 1) => EventAnalogInputVariation::Group32Var1,
        (32, 2) => EventAnalogInputVariation::Group32Var2,
        (32, 3) => EventAnalogInputVariation::Group32Var3,
        (32, 4) => EventAnalogInputVariation::Group32Var4,
        (32, 5) => EventAnalogInputVariation::Group32Var5,
        (32, 6) => EventAnalogInputVariation::Group32Var6,
        (32, 7) => EventAnalogInputVariation::Group32Var7,
        (32, 8) => EventAnalogInputVariation::Group32Var8,
        _ => panic!("bad evar {}", s),
    }
}
fn s_aos(s: &str) -> StaticAnalogOutputStatusVariation {
    match gv(s) {
        (40, 1) => StaticAnalogOutputStatusVariation::Group40Var1,
        (40, 2) => StaticAnalogOutputStatusVariation::Group40Var2,
        (40, 3) => StaticAnalogOutputStatusVariation::Group40Var3,
        (40, 4) => StaticAnalogOutputStatusVariation::Group40Var4,
        _ => panic!("bad svar {}", s),
    }
}
fn e_aos(s: &str) -> EventAnalogOutputStatusVariation {
    match gv(s) {
        (42, 1) => EventAnalogOutputStatusVariation::Group42Var1,
        (42, 2) => EventAnalogOutputStatusVariation::Group42Var2,
        (42, 3) => EventAnalogOutputStatusVariation::Group42Var3,
        (42, 4) => EventAnalogOutputStatusVariation::Group42Var4,
        (42, 5) => EventAnalogOutputStatusVariation::Group42Var5,
        (42, 6) => EventAnalogOutputStatusVariation::Group42Var6,
        (42, 7) => EventAnalogOutputStatusVariation::Group42Var7,
        (42, 8) => EventAnalogOutputStatusVariation::Group42Var8,
        _ => panic!("bad evar {}", s),
    }
}

fn info_text(prefix: &str, info: UpdateInfo) -> String {
    match info {
        UpdateInfo::NoPoint => format!("{} nopoint", prefix),
        UpdateInfo::NoEvent => format!("{} noevent", prefix),
        UpdateInfo::Created(id) => format!("{} created {}", prefix, id),
        UpdateInfo::Overflow { created, discarded } => {
            format!("{} overflow {} {}", prefix, created, discarded)
        }
    }
}

fn b01(x: bool) -> u8 {
    u8::from(x)
}

/// the object header of a READ request as the master would send it
fn request_header(op: &[String]) -> Vec<u8> {
    let mut out = vec![num(&op[1]) as u8, num(&op[2]) as u8];
    match op[3].as_str() {
        "all" => out.push(0x06),
        "c8" => {
            out.push(0x07);
            out.push(num(&op[4]) as u8);
        }
        "c16" => {
            out.push(0x08);
            out.extend_from_slice(&(num(&op[4]) as u16).to_le_bytes());
        }
        "r8" => {
            out.push(0x00);
            out.push(num(&op[4]) as u8);
            out.push(num(&op[5]) as u8);
        }
        "r16" => {
            out.push(0x01);
            out.extend_from_slice(&(num(&op[4]) as u16).to_le_bytes());
            out.extend_from_slice(&(num(&op[5]) as u16).to_le_bytes());
        }
        x => panic!("bad qualifier {}", x),
    }
    out
}

pub(crate) async fn run_db(script: &Script, obs: &mut Vec<String>) {
    let cfg = EventBufferConfig::new(
        script.cfg_u64("mb", 0) as u16,
        script.cfg_u64("mdb", 0) as u16,
        script.cfg_u64("mbos", 0) as u16,
        script.cfg_u64("mc", 0) as u16,
        script.cfg_u64("mfc", 0) as u16,
        script.cfg_u64("ma", 0) as u16,
        script.cfg_u64("maos", 0) as u16,
        script.cfg_u64("mo", 0) as u16,
    );
    let c0s = script.cfg_str("c0", "11111110");
    let c0: Vec<bool> = c0s.bytes().map(|c| c == b'1').collect();
    assert!(c0.len() == 8, "c0 needs 8 digits");
    let c0 = ClassZeroConfig::new(c0[0], c0[1], c0[2], c0[3], c0[4], c0[5], c0[6], c0[7]);
    let maxsel = script.cfg.get("maxsel").map(|x| x.parse::<u16>().unwrap());
    let mut db = Database::new(maxsel, c0, cfg);
    let mut app = App {
        cleared: Vec::new(),
    };

    for op in &script.ops {
        match op[0].as_str() {
            "add" => {
                let idx = num(&op[2]) as u16;
                let cl = class(&op[3]);
                let ok = match op[1].as_str() {
                    "bi" => db.add(
                        idx,
                        cl,
                        BinaryInputConfig {
                            s_var: s_bi(&op[4]),
                            e_var: e_bi(&op[5]),
                        },
                    ),
                    "dbi" => db.add(
                        idx,
                        cl,
                        DoubleBitBinaryInputConfig {
                            s_var: s_dbi(&op[4]),
                            e_var: e_dbi(&op[5]),
                        },
                    ),
                    "bos" => db.add(
                        idx,
                        cl,
                        BinaryOutputStatusConfig {
                            s_var: s_bos(&op[4]),
                            e_var: e_bos(&op[5]),
                        },
                    ),
                    "ctr" => db.add(
                        idx,
                        cl,
                        CounterConfig {
                            s_var: s_ctr(&op[4]),
                            e_var: e_ctr(&op[5]),
                            deadband: num(&op[6]) as u32,
                        },
                    ),
                    "fctr" => db.add(
                        idx,
                        cl,
                        FrozenCounterConfig {
                            s_var: s_fctr(&op[4]),
                            e_var: e_fctr(&op[5]),
                            deadband: num(&op[6]) as u32,
                        },
                    ),
                    "ai" => db.add(
                        idx,
                        cl,
                        AnalogInputConfig {
                            s_var: s_ai(&op[4]),
                            e_var: e_ai(&op[5]),
                            deadband: f64_of(&op[6]),
                        },
                    ),
                    "aos" => db.add(
                        idx,
                        cl,
                        AnalogOutputStatusConfig {
                            s_var: s_aos(&op[4]),
                            e_var: e_aos(&op[5]),
                            deadband: f64_of(&op[6]),
                        },
                    ),
                    "oct" => db.add(idx, cl, OctetStringConfig),
                    x => panic!("bad type {}", x),
                };
                obs.push(format!("add {}", b01(ok)));
            }
            "rm" => {
                let idx = num(&op[2]) as u16;
                let ok = match op[1].as_str() {
                    "bi" => Remove::<BinaryInput>::remove(&mut db, idx),
                    "dbi" => Remove::<DoubleBitBinaryInput>::remove(&mut db, idx),
                    "bos" => Remove::<BinaryOutputStatus>::remove(&mut db, idx),
                    "ctr" => Remove::<Counter>::remove(&mut db, idx),
                    "fctr" => Remove::<FrozenCounter>::remove(&mut db, idx),
                    "ai" => Remove::<AnalogInput>::remove(&mut db, idx),
                    "aos" => Remove::<AnalogOutputStatus>::remove(&mut db, idx),
                    "oct" => Remove::<OctetString>::remove(&mut db, idx),
                    x => panic!("bad type {}", x),
                };
                obs.push(format!("rm {}", b01(ok)));
            }
            "upd" => {
                let idx = num(&op[2]) as u16;
                let flags = Flags::new(num(&op[4]) as u8);
                let t = time(&op[5]);
                let opts = mode(&op[6]);
                let v = op[3].as_str();
                let info = match op[1].as_str() {
                    "bi" => db.update2(
                        idx,
                        &BinaryInput {
                            value: v == "1",
                            flags,
                            time: t,
                        },
                        opts,
                    ),
                    "dbi" => db.update2(
                        idx,
                        &DoubleBitBinaryInput {
                            value: dbit(v),
                            flags,
                            time: t,
                        },
                        opts,
                    ),
                    "bos" => db.update2(
                        idx,
                        &BinaryOutputStatus {
                            value: v == "1",
                            flags,
                            time: t,
                        },
                        opts,
                    ),
                    "ctr" => db.update2(
                        idx,
                        &Counter {
                            value: num(v) as u32,
                            flags,
                            time: t,
                        },
                        opts,
                    ),
                    "fctr" => db.update2(
                        idx,
                        &FrozenCounter {
                            value: num(v) as u32,
                            flags,
                            time: t,
                        },
                        opts,
                    ),
                    "ai" => db.update2(
                        idx,
                        &AnalogInput {
                            value: f64_of(v),
                            flags,
                            time: t,
                        },
                        opts,
                    ),
                    "aos" => db.update2(
                        idx,
                        &AnalogOutputStatus {
                            value: f64_of(v),
                            flags,
                            time: t,
                        },
                        opts,
                    ),
                    "oct" => db.update2(
                        idx,
                        &OctetString::new(&unhex(v)).expect("octet string"),
                        opts,
                    ),
                    x => panic!("bad type {}", x),
                };
                obs.push(info_text("upd", info));
            }
            "updf" => {
                let idx = num(&op[2]) as u16;
                let flags = Flags::new(num(&op[3]) as u8);
                let t = time(&op[4]);
                let opts = mode(&op[5]);
                let ty = match op[1].as_str() {
                    "bi" => UpdateFlagsType::BinaryInput,
                    "dbi" => UpdateFlagsType::DoubleBitBinaryInput,
                    "bos" => UpdateFlagsType::BinaryOutputStatus,
                    "ctr" => UpdateFlagsType::Counter,
                    "fctr" => UpdateFlagsType::FrozenCounter,
                    "ai" => UpdateFlagsType::AnalogInput,
                    "aos" => UpdateFlagsType::AnalogOutputStatus,
                    x => panic!("bad type {}", x),
                };
                let info = db.update_flags(idx, ty, flags, t, opts);
                obs.push(info_text("updf", info));
            }
            "get" => {
                let idx = num(&op[2]) as u16;
                let line = match op[1].as_str() {
                    "bi" => Get::<BinaryInput>::get(&db, idx).map(|x| {
                        format!("{} {} {}", b01(x.value), x.flags.value, time_text(x.time))
                    }),
                    "dbi" => Get::<DoubleBitBinaryInput>::get(&db, idx).map(|x| {
                        format!(
                            "{} {} {}",
                            x.value.to_byte(),
                            x.flags.value,
                            time_text(x.time)
                        )
                    }),
                    "bos" => Get::<BinaryOutputStatus>::get(&db, idx).map(|x| {
                        format!("{} {} {}", b01(x.value), x.flags.value, time_text(x.time))
                    }),
                    "ctr" => Get::<Counter>::get(&db, idx)
                        .map(|x| format!("{} {} {}", x.value, x.flags.value, time_text(x.time))),
                    "fctr" => Get::<FrozenCounter>::get(&db, idx)
                        .map(|x| format!("{} {} {}", x.value, x.flags.value, time_text(x.time))),
                    "ai" => Get::<AnalogInput>::get(&db, idx).map(|x| {
                        format!(
                            "{:016x} {} {}",
                            x.value.to_bits(),
                            x.flags.value,
                            time_text(x.time)
                        )
                    }),
                    "aos" => Get::<AnalogOutputStatus>::get(&db, idx).map(|x| {
                        format!(
                            "{:016x} {} {}",
                            x.value.to_bits(),
                            x.flags.value,
                            time_text(x.time)
                        )
                    }),
                    "oct" => {
                        Get::<OctetString>::get(&db, idx).map(|x| format!("{} 0 n", hex(x.value())))
                    }
                    x => panic!("bad type {}", x),
                };
                obs.push(match line {
                    None => "get none".to_string(),
                    Some(x) => format!("get {}", x),
                });
            }
            "sel" => {
                let bytes = request_header(op);
                match HeaderCollection::parse(ParseOptions::default(), FunctionCode::Read, &bytes) {
                    Err(_) => obs.push("sel badreq".to_string()),
                    Ok(headers) => {
                        for header in headers.iter() {
                            match ReadHeader::get(&header) {
                                None => obs.push("sel unsupported".to_string()),
                                Some(x) => {
                                    let iin2 = db.inner.select_by_header(x);
                                    obs.push(format!("sel {}", iin2.value));
                                }
                            }
                        }
                    }
                }
            }
            "selm" => {
                let m = op[1].as_bytes();
                let classes = EventClasses::new(m[0] == b'1', m[1] == b'1', m[2] == b'1');
                let n = db.inner.select_event_classes(classes);
                obs.push(format!("selm {}", n));
            }
            "wr" => {
                let mut buf = vec![0u8; num(&op[1]) as usize];
                let mut cursor = WriteCursor::new(&mut buf);
                let info = db.inner.write_response_headers(&mut cursor);
                obs.push(format!(
                    "wr {} {} {}",
                    hex(cursor.written()),
                    b01(info.has_events),
                    b01(info.complete)
                ));
            }
            "wre" => {
                let mut buf = vec![0u8; num(&op[1]) as usize];
                let mut cursor = WriteCursor::new(&mut buf);
                let n = db.inner.write_events_only(&mut cursor);
                obs.push(format!("wre {} {}", hex(cursor.written()), n));
            }
            "clr" => {
                app.cleared.clear();
                let st = db.inner.clear_written_events(&mut app);
                let ids = if app.cleared.is_empty() {
                    "-".to_string()
                } else {
                    app.cleared
                        .iter()
                        .map(|x| x.to_string())
                        .collect::<Vec<_>>()
                        .join(" ")
                };
                obs.push(format!(
                    "clr {} | {} {} {} | {} {} {} {} {} {} {} {}",
                    ids,
                    st.classes.num_class_1,
                    st.classes.num_class_2,
                    st.classes.num_class_3,
                    st.types.num_binary_input,
                    st.types.num_double_bit_binary_input,
                    st.types.num_binary_output_status,
                    st.types.num_counter,
                    st.types.num_frozen_counter,
                    st.types.num_analog,
                    st.types.num_analog_output_status,
                    st.types.num_octet_string
                ));
            }
            "rst" => {
                db.inner.reset();
                obs.push("rst".to_string());
            }
            "iin" => {
                let c = db.inner.unwritten_classes();
                let o = db.inner.is_overflown();
                obs.push(format!(
                    "iin {}{}{} {}",
                    b01(c.class1),
                    b01(c.class2),
                    b01(c.class3),
                    b01(o)
                ));
            }
            x => panic!("bad op {}", x),
        }
    }
    obs.push("end".to_string());
}
