// Engines for the link and transport layers (C06, C07 link half, C08, C01 lower stack).
// They drive the PRODUCTION code: link::reader::Reader, link::layer::Layer,
// transport::real::{reader::Reader, writer::Writer} (hook H2) over PhysLayer::Mock.

use super::{decode_level, hex, unhex, Script};
use crate::app::EndpointType;
use crate::link::error::{FrameError, LinkError, LogicError};
use crate::link::header::{BroadcastConfirmMode, FrameType};
use crate::link::parser::FramePayload;
use crate::link::reader::LinkModes;
use crate::link::{EndpointAddress, LinkErrorMode, LinkReadMode};
use crate::outstation::Feature;
use crate::transport::{FragmentAddr, LinkLayerMessageType, TransportData};
use crate::util::phys::{PhysAddr, PhysLayer};
use std::time::Duration;

fn modes(script: &Script) -> LinkModes {
    let error_mode = match script.cfg_str("mode", "close").as_str() {
        "close" => LinkErrorMode::Close,
        "discard" => LinkErrorMode::Discard,
        x => panic!("bad mode {}", x),
    };
    let read_mode = match script.cfg_str("read", "stream").as_str() {
        "stream" => LinkReadMode::Stream,
        "datagram" => LinkReadMode::Datagram,
        x => panic!("bad read mode {}", x),
    };
    LinkModes {
        error_mode,
        read_mode,
    }
}

pub(crate) fn err_text(err: &LinkError) -> String {
    match err {
        LinkError::Stdio(k) => format!("stdio {:?}", k),
        LinkError::BadFrame(FrameError::UnexpectedStart1(x)) => format!("start1 {}", x),
        LinkError::BadFrame(FrameError::UnexpectedStart2(x)) => format!("start2 {}", x),
        LinkError::BadFrame(FrameError::BadLength(x)) => format!("length {}", x),
        LinkError::BadFrame(FrameError::BadHeaderCrc) => "hcrc".to_string(),
        LinkError::BadFrame(FrameError::BadBodyCrc) => "bcrc".to_string(),
        LinkError::BadLogic(LogicError::BadRead) => "logic-read".to_string(),
        LinkError::BadLogic(LogicError::BadWrite) => "logic-write".to_string(),
        LinkError::BadLogic(LogicError::BadSize) => "logic-size".to_string(),
    }
}

fn bcast_text(b: Option<BroadcastConfirmMode>) -> &'static str {
    match b {
        None => "none",
        Some(BroadcastConfirmMode::Optional) => "opt",
        Some(BroadcastConfirmMode::Mandatory) => "mand",
        Some(BroadcastConfirmMode::NotRequired) => "notreq",
    }
}

fn drain_tx(handle: &mut sfio_tokio_mock_io::Handle, obs: &mut Vec<String>) {
    while let Some(ev) = handle.pop_event() {
        if let sfio_tokio_mock_io::Event::Write(data) = ev {
            obs.push(format!("tx {}", hex(&data)));
        }
    }
}

fn role(script: &Script) -> EndpointType {
    match script.cfg_str("role", "outstation").as_str() {
        "master" => EndpointType::Master,
        "outstation" => EndpointType::Outstation,
        x => panic!("bad role {}", x),
    }
}

fn feature(script: &Script, key: &str) -> Feature {
    if script.cfg_u64(key, 0) != 0 {
        Feature::Enabled
    } else {
        Feature::Disabled
    }
}

/// `feed <hex> @<port>`: the octets arrive as a datagram from 127.0.0.1:<port> (hook H7)
fn announce(op: &[String], len: usize) {
    if let Some(p) = op.get(2).and_then(|x| x.strip_prefix('@')) {
        crate::util::verif_trace::push_phys_addr(p.parse::<u16>().expect("port"), len);
    }
}

fn phys_text(a: PhysAddr) -> String {
    match a {
        PhysAddr::None => "@none".to_string(),
        PhysAddr::Udp(x) => format!("@{}", x.port()),
    }
}

/// link::reader::Reader::read_frame, one queued physical read per `feed`
pub(crate) async fn run_link(script: &Script, obs: &mut Vec<String>) {
    let level = decode_level(script);
    let frag = script.cfg_u64("frag", 2048) as usize;
    let mut reader = crate::link::reader::Reader::new(modes(script), frag);
    let (mock, mut handle) = sfio_tokio_mock_io::mock();
    let mut io = PhysLayer::Mock(mock);
    let mut payload = FramePayload::new();
    let phys = script.cfg_u64("phys", 0) == 1;
    crate::util::verif_trace::clear_phys_addrs();

    'ops: for op in &script.ops {
        match op[0].as_str() {
            "feed" => {
                let bytes = unhex(&op[1]);
                announce(op, bytes.len());
                handle.read(&bytes);
                loop {
                    let res = tokio::time::timeout(
                        Duration::from_millis(1),
                        reader.read_frame(&mut io, &mut payload, level),
                    )
                    .await;
                    match res {
                        Err(_) => break, // reader waits for more bytes
                        Ok(Ok((header, addr))) => obs.push(format!(
                            "frame {} {} {} {}{}",
                            header.control.to_u8(),
                            header.destination.value(),
                            header.source.value(),
                            hex(payload.get()),
                            if phys {
                                format!(" {}", phys_text(addr))
                            } else {
                                String::new()
                            }
                        )),
                        Ok(Err(err)) => {
                            obs.push(format!("err {}", err_text(&err)));
                            break 'ops;
                        }
                    }
                }
            }
            "reset" => {
                reader.reset();
                obs.push("reset".to_string());
            }
            x => panic!("bad op {}", x),
        }
    }
    obs.push("end".to_string());
}

/// link::layer::Layer::read (address filtering, secondary station state, replies)
pub(crate) async fn run_layer(script: &Script, obs: &mut Vec<String>) {
    let level = decode_level(script);
    let frag = script.cfg_u64("frag", 2048) as usize;
    let addr = EndpointAddress::raw(script.cfg_u64("addr", 1024) as u16);
    let mut layer = crate::link::layer::Layer::new(
        modes(script),
        frag,
        role(script),
        feature(script, "self"),
        addr,
    );
    let (mock, mut handle) = sfio_tokio_mock_io::mock();
    let mut io = PhysLayer::Mock(mock);
    let mut payload = FramePayload::new();

    'ops: for op in &script.ops {
        match op[0].as_str() {
            "feed" => {
                handle.read(&unhex(&op[1]));
                loop {
                    let res = tokio::time::timeout(
                        Duration::from_millis(1),
                        layer.read(&mut io, level, &mut payload),
                    )
                    .await;
                    drain_tx(&mut handle, obs);
                    match res {
                        Err(_) => break,
                        Ok(Ok(info)) => obs.push(format!(
                            "info {} {} {} {}",
                            info.source.raw_value(),
                            bcast_text(info.broadcast),
                            match info.frame_type {
                                FrameType::Data => "data",
                                FrameType::LinkStatusRequest => "lsreq",
                                FrameType::LinkStatusResponse => "lsresp",
                            },
                            hex(payload.get())
                        )),
                        Ok(Err(err)) => {
                            obs.push(format!("err {}", err_text(&err)));
                            break 'ops;
                        }
                    }
                }
            }
            "reset" => {
                layer.reset();
                obs.push("reset".to_string());
            }
            x => panic!("bad op {}", x),
        }
    }
    obs.push("end".to_string());
}

/// transport::real::reader::Reader::read + pop (assembler, pending link-layer message)
pub(crate) async fn run_treader(script: &Script, obs: &mut Vec<String>) {
    let level = decode_level(script);
    let frag = script.cfg_u64("frag", 2048) as usize;
    let addr = EndpointAddress::raw(script.cfg_u64("addr", 1024) as u16);
    let mut reader = match role(script) {
        EndpointType::Master => {
            crate::transport::real::reader::Reader::master(modes(script), addr, frag)
        }
        EndpointType::Outstation => crate::transport::real::reader::Reader::outstation(
            modes(script),
            addr,
            feature(script, "self"),
            frag,
        ),
    };
    let (mock, mut handle) = sfio_tokio_mock_io::mock();
    let mut io = PhysLayer::Mock(mock);
    let phys = script.cfg_u64("phys", 0) == 1;
    crate::util::verif_trace::clear_phys_addrs();

    'ops: for op in &script.ops {
        match op[0].as_str() {
            "feed" => {
                let bytes = unhex(&op[1]);
                announce(op, bytes.len());
                handle.read(&bytes);
                loop {
                    let res =
                        tokio::time::timeout(Duration::from_millis(1), reader.read(&mut io, level))
                            .await;
                    drain_tx(&mut handle, obs);
                    match res {
                        Err(_) => break,
                        Ok(Ok(())) => match reader.pop() {
                            Some(TransportData::Fragment(f)) => obs.push(format!(
                                "frag {} {} {} {}{}",
                                f.info.id,
                                f.info.addr.link.raw_value(),
                                bcast_text(f.info.broadcast),
                                hex(f.data),
                                if phys {
                                    format!(" {}", phys_text(f.info.addr.phys))
                                } else {
                                    String::new()
                                }
                            )),
                            Some(TransportData::LinkLayerMessage(m)) => obs.push(format!(
                                "llmsg {} {}",
                                m.source.raw_value(),
                                match m.message {
                                    LinkLayerMessageType::LinkStatusRequest => "req",
                                    LinkLayerMessageType::LinkStatusResponse => "resp",
                                }
                            )),
                            None => obs.push("pop-none".to_string()),
                        },
                        Ok(Err(err)) => {
                            obs.push(format!("err {}", err_text(&err)));
                            break 'ops;
                        }
                    }
                }
            }
            "reset" => {
                reader.reset();
                obs.push("reset".to_string());
            }
            x => panic!("bad op {}", x),
        }
    }
    obs.push("end".to_string());
}

/// transport::real::writer::Writer::write / write_link_status_request / reset
pub(crate) async fn run_twriter(script: &Script, obs: &mut Vec<String>) {
    let level = decode_level(script);
    let addr = EndpointAddress::raw(script.cfg_u64("addr", 1024) as u16);
    let mut writer = crate::transport::real::writer::Writer::new(role(script), addr);
    let (mock, mut handle) = sfio_tokio_mock_io::mock();
    let mut io = PhysLayer::Mock(mock);

    for op in &script.ops {
        match op[0].as_str() {
            "write" => {
                let dest = FragmentAddr {
                    link: EndpointAddress::raw(op[1].parse::<u16>().unwrap()),
                    phys: PhysAddr::None,
                };
                let res = writer.write(&mut io, level, dest, &unhex(&op[2])).await;
                drain_tx(&mut handle, obs);
                if let Err(err) = res {
                    obs.push(format!("err {}", err_text(&err)));
                }
            }
            "lsreq" => {
                let dest = FragmentAddr {
                    link: EndpointAddress::raw(op[1].parse::<u16>().unwrap()),
                    phys: PhysAddr::None,
                };
                let res = writer.write_link_status_request(&mut io, dest, level).await;
                drain_tx(&mut handle, obs);
                if let Err(err) = res {
                    obs.push(format!("err {}", err_text(&err)));
                }
            }
            "reset" => {
                writer.reset();
                obs.push("reset".to_string());
            }
            x => panic!("bad op {}", x),
        }
    }
    obs.push("end".to_string());
}
