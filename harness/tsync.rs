// Engine `tsync` (property C18): a REAL master task and a REAL outstation task, each over its own
// PhysLayer::Mock, under the paused tokio clock.  The engine is the channel between them: every
// application fragment written by one side is queued on the other side after the scripted one-way
// delay (whole milliseconds of virtual time).  Nothing is settled with a tick: the engine is woken
// at the very instant a fragment is written (it awaits the mock's event channel) and it advances
// virtual time only by sleeping until the next scheduled arrival, so every time stamp in the trace is
// exact and the model charges no settle time at all.
//
//   cfg: c0=<master clock at t=0, ms>  proc=lan|nonlan|direct  timeout=<response timeout ms>
//        need=auto|stuck|clear   (NEED_TIME of the outstation: until a time is written | always | never)
//   ops: sync <token>            user request AssociationHandle::synchronize_time(procedure)
//        fwd <ms> | back <ms>    one-way delays for the messages written from now on
//        hold <ms>               actual processing delay of the outstation (response held that long)
//        proc <ms>               processing delay the outstation REPORTS in g52v2 (saturates at 65535)
//        drop fwd|back           the next message in that direction is lost
//        dup fwd|back <ms>       the next message is delivered twice, the copy <ms> later
//        tamper objs <hex> | iin <hex4> | ctl <hex2>
//                                the next outstation->master fragment gets its objects replaced /
//                                IIN bits or-ed / control byte xor-ed
//        mclock on|off           AssociationHandler::get_current_time answers / returns None
//        inject_master <hex>     an unrelated fragment is handed to the master now
//        run <ms>                let virtual time pass
//   trace: m2o <t_send> <t_arrive|drop> <hex>   o2m <t_send> <t_arrive|drop> <hex>   inj <t> <hex>
//          written <t> <timestamp>              res <token> ok | res <token> err <kind>
//          clock <t> <master clock | none>      (last line)

use super::{hex, unhex, Script};
use crate::app::parse::options::ParseOptions;
use crate::app::{Timeout, Timestamp};
use crate::link::header::{FrameInfo, FrameType};
use crate::link::reader::LinkModes;
use crate::link::EndpointAddress;
use crate::master::task::MasterTask;
use crate::master::AssociationConfig;
use crate::master::{
    AssociationHandle, AssociationHandler, AssociationInformation, MasterChannel,
    MasterChannelConfig, MasterChannelType, ReadHandler, TaskError, TimeSyncError,
    TimeSyncProcedure,
};
use crate::outstation::database::EventBufferConfig;
use crate::outstation::task::OutstationTask;
use crate::outstation::{
    ApplicationIin, DefaultControlHandler, Feature, OutstationApplication, OutstationConfig,
    OutstationInformation, RequestError,
};
use crate::util::phys::{PhysAddr, PhysLayer};
use crate::util::session::Enabled;
use sfio_tokio_mock_io::Event;
use std::future::Future;
use std::pin::Pin;
use std::sync::{Arc, Mutex};
use std::task::Poll;
use std::time::Duration;
use tokio::time::Instant;

#[derive(Copy, Clone, PartialEq)]
enum NeedMode {
    Auto,
    Stuck,
    Clear,
}

struct Shared {
    log: Vec<String>,
    base: Instant,
    c0: u64,
    clock_on: bool,
    reported_delay: u16,
    need_mode: NeedMode,
    need_time: bool,
}

impl Shared {
    fn now_ms(&self) -> u64 {
        Instant::now()
            .saturating_duration_since(self.base)
            .as_millis() as u64
    }
    fn clock(&self) -> Option<u64> {
        if !self.clock_on {
            return None;
        }
        let v = self.c0 as u128 + self.now_ms() as u128;
        if v > Timestamp::MAX_VALUE as u128 {
            None // the master's clock no longer fits a DNP3 time stamp
        } else {
            Some(v as u64)
        }
    }
}

struct ClockHandler(Arc<Mutex<Shared>>);

impl AssociationHandler for ClockHandler {
    fn get_current_time(&self) -> Option<Timestamp> {
        self.0.lock().unwrap().clock().map(Timestamp::new)
    }
}

struct NullRead;
impl ReadHandler for NullRead {}
struct NullAssocInfo;
impl AssociationInformation for NullAssocInfo {}
struct NullOutInfo;
impl OutstationInformation for NullOutInfo {}

struct App(Arc<Mutex<Shared>>);

impl OutstationApplication for App {
    fn get_processing_delay_ms(&self) -> u16 {
        self.0.lock().unwrap().reported_delay
    }

    fn write_absolute_time(&mut self, time: Timestamp) -> Result<(), RequestError> {
        let mut s = self.0.lock().unwrap();
        let t = s.now_ms();
        s.log.push(format!("written {} {}", t, time.raw_value()));
        if s.need_mode == NeedMode::Auto {
            s.need_time = false;
        }
        Ok(())
    }

    fn get_application_iin(&self) -> ApplicationIin {
        ApplicationIin {
            need_time: self.0.lock().unwrap().need_time,
            ..Default::default()
        }
    }
}

fn err_kind(err: TimeSyncError) -> String {
    match err {
        TimeSyncError::Task(TaskError::ResponseTimeout) => "timeout".to_string(),
        TimeSyncError::Task(TaskError::RejectedByIin2(_)) => "iin2".to_string(),
        TimeSyncError::Task(TaskError::UnexpectedResponseHeaders) => "headers".to_string(),
        TimeSyncError::Task(TaskError::MalformedResponse(_)) => "malformed".to_string(),
        TimeSyncError::Task(TaskError::MultiFragmentResponse) => "multifrag".to_string(),
        TimeSyncError::Task(_) => "task".to_string(),
        TimeSyncError::ClockRollback => "rollback".to_string(),
        TimeSyncError::SystemTimeNotUnix => "notunix".to_string(),
        TimeSyncError::BadOutstationTimeDelay(x) => format!("delay {}", x),
        TimeSyncError::Overflow => "overflow".to_string(),
        TimeSyncError::StillNeedsTime => "needtime".to_string(),
        TimeSyncError::SystemTimeNotAvailable => "nosystime".to_string(),
        TimeSyncError::IinError(_) => "iinerror".to_string(),
    }
}

struct InFlight {
    arrive: u64,
    ord: u64,
    to_master: bool,
    data: Vec<u8>,
}

enum Tamper {
    Objs(Vec<u8>),
    Iin(u8, u8),
    Ctl(u8),
}

struct Channel {
    shared: Arc<Mutex<Shared>>,
    fwd: u64,
    back: u64,
    hold: u64,
    drop_fwd: u32,
    drop_back: u32,
    dup_fwd: Option<u64>,
    dup_back: Option<u64>,
    tamper: Vec<Tamper>,
    queue: Vec<InFlight>,
    ord: u64,
}

impl Channel {
    fn now(&self) -> u64 {
        self.shared.lock().unwrap().now_ms()
    }

    fn log(&self, line: String) {
        self.shared.lock().unwrap().log.push(line);
    }

    fn push(&mut self, arrive: u64, to_master: bool, data: &[u8]) {
        self.ord += 1;
        self.queue.push(InFlight {
            arrive,
            ord: self.ord,
            to_master,
            data: data.to_vec(),
        });
    }

    /// the master wrote a fragment
    fn master_wrote(&mut self, data: Vec<u8>) {
        let t = self.now();
        if self.drop_fwd > 0 {
            self.drop_fwd -= 1;
            self.log(format!("m2o {} drop {}", t, hex(&data)));
            return;
        }
        let arrive = t + self.fwd;
        self.log(format!("m2o {} {} {}", t, arrive, hex(&data)));
        self.push(arrive, false, &data);
        if let Some(extra) = self.dup_fwd.take() {
            self.log(format!("m2o {} {} {}", t, arrive + extra, hex(&data)));
            self.push(arrive + extra, false, &data);
        }
    }

    /// the outstation wrote a fragment
    fn outstation_wrote(&mut self, mut data: Vec<u8>) {
        let t = self.now();
        for tm in self.tamper.drain(..) {
            match tm {
                Tamper::Objs(o) => {
                    data.truncate(4);
                    data.extend_from_slice(&o);
                }
                Tamper::Iin(a, b) => {
                    if data.len() >= 4 {
                        data[2] |= a;
                        data[3] |= b;
                    }
                }
                Tamper::Ctl(x) => {
                    if !data.is_empty() {
                        data[0] ^= x;
                    }
                }
            }
        }
        if self.drop_back > 0 {
            self.drop_back -= 1;
            self.log(format!("o2m {} drop {}", t, hex(&data)));
            return;
        }
        let arrive = t + self.hold + self.back;
        self.log(format!("o2m {} {} {}", t, arrive, hex(&data)));
        self.push(arrive, true, &data);
        if let Some(extra) = self.dup_back.take() {
            self.log(format!("o2m {} {} {}", t, arrive + extra, hex(&data)));
            self.push(arrive + extra, true, &data);
        }
    }

    fn next_arrival(&self) -> Option<u64> {
        self.queue.iter().map(|m| m.arrive).min()
    }

    /// remove the message that is due first (arrival time, then order of sending)
    fn pop_due(&mut self, now: u64) -> Option<InFlight> {
        let mut best: Option<usize> = None;
        for (i, m) in self.queue.iter().enumerate() {
            if m.arrive <= now {
                best = match best {
                    None => Some(i),
                    Some(j) => {
                        let b = &self.queue[j];
                        if (m.arrive, m.ord) < (b.arrive, b.ord) {
                            Some(i)
                        } else {
                            Some(j)
                        }
                    }
                };
            }
        }
        best.map(|i| self.queue.remove(i))
    }
}

type SyncFuture = Pin<Box<dyn Future<Output = Result<(), TimeSyncError>>>>;

enum Wake {
    Result(usize, Result<(), TimeSyncError>),
    Master(Event),
    Outstation(Event),
    Timer,
    Quiet,
}

/// hand one fragment to a task and wait until its mock has consumed it; the task then runs until it
/// blocks again before this function returns (single thread), whatever it writes meanwhile is seen
/// as events afterwards
async fn deliver(
    handle: &mut sfio_tokio_mock_io::Handle,
    data: &[u8],
    mut on_write: impl FnMut(Vec<u8>),
) {
    handle.read(data);
    loop {
        match handle.next_event().await {
            Event::Read => break,
            Event::Write(w) => on_write(w),
            _ => {}
        }
    }
}

pub(crate) async fn run_tsync(script: &Script, obs: &mut Vec<String>) {
    let c0 = script.cfg_u64("c0", 0);
    let procedure = match script.cfg_str("proc", "lan").as_str() {
        "lan" => TimeSyncProcedure::Lan,
        "nonlan" => TimeSyncProcedure::NonLan,
        "direct" => TimeSyncProcedure::DirectWriteAbsTime,
        x => panic!("bad procedure {}", x),
    };
    let timeout_ms = script.cfg_u64("timeout", 5000);
    let need_mode = match script.cfg_str("need", "auto").as_str() {
        "auto" => NeedMode::Auto,
        "stuck" => NeedMode::Stuck,
        "clear" => NeedMode::Clear,
        x => panic!("bad need mode {}", x),
    };

    let shared = Arc::new(Mutex::new(Shared {
        log: Vec::new(),
        base: Instant::now(),
        c0,
        clock_on: true,
        reported_delay: 0,
        need_mode,
        need_time: need_mode != NeedMode::Clear,
    }));

    let master_address = EndpointAddress::try_new(1).unwrap();
    let outstation_address = EndpointAddress::try_new(1024).unwrap();

    // ---- master: the constructor sequence of master/tests/harness/mod.rs
    let (m_io, mut m_handle) = sfio_tokio_mock_io::mock();
    let mut m_io = PhysLayer::Mock(m_io);
    let (tx, rx) = crate::util::channel::request_channel();
    let mut m_task = MasterTask::new(
        Enabled::Yes,
        LinkModes::test(),
        ParseOptions::default(),
        MasterChannelConfig::new(master_address),
        rx,
    );
    let mut master = MasterChannel::new(tx, MasterChannelType::Stream);
    m_task.set_rx_frame_info(FrameInfo::new(
        outstation_address,
        None,
        FrameType::Data,
        PhysAddr::None,
    ));
    let m_join = tokio::spawn(async move { m_task.run(&mut m_io).await });

    let mut config = AssociationConfig::quiet(); // no start-up handshake, no automatic tasks
    config.response_timeout = Timeout::from_millis(timeout_ms).expect("timeout out of range");
    config.auto_time_sync = None;
    config.keep_alive_timeout = None;
    let association: AssociationHandle = master
        .add_association(
            outstation_address,
            config,
            Box::new(NullRead),
            Box::new(ClockHandler(shared.clone())),
            Box::new(NullAssocInfo),
        )
        .await
        .unwrap();

    // ---- outstation: the constructor sequence of outstation/tests/harness/harness.rs
    let mut o_config = OutstationConfig::new(
        outstation_address,
        master_address,
        EventBufferConfig::all_types(5),
    );
    o_config.features.unsolicited = Feature::Disabled;
    o_config.keep_alive_timeout = None;
    let (o_task, _o_handle_api) = OutstationTask::create(
        Enabled::Yes,
        LinkModes::test(),
        ParseOptions::get_static(),
        o_config,
        PhysAddr::None,
        Box::new(App(shared.clone())),
        Box::new(NullOutInfo),
        DefaultControlHandler::create(),
    );
    let mut o_task = Box::new(o_task);
    o_task
        .get_reader()
        .get_inner()
        .set_rx_frame_info(FrameInfo::new(
            master_address,
            None,
            FrameType::Data,
            PhysAddr::None,
        ));
    let (o_io, mut o_handle) = sfio_tokio_mock_io::mock();
    let mut o_io = PhysLayer::Mock(o_io);
    let o_join = tokio::spawn(async move { o_task.run(&mut o_io).await });

    // prologue (not part of the trace): clear the outstation's DEVICE_RESTART indication so that
    // the master does not schedule its clear-restart task; sequence number 15 keeps the request
    // distinct from the master's first one
    deliver(
        &mut o_handle,
        &[0xCF, 0x02, 0x50, 0x01, 0x00, 0x07, 0x07, 0x00],
        |_| {},
    )
    .await;
    while o_handle.pop_event().is_some() {}
    {
        let mut s = shared.lock().unwrap();
        s.base = Instant::now();
        s.log.clear();
    }

    let mut chan = Channel {
        shared: shared.clone(),
        fwd: 0,
        back: 0,
        hold: 0,
        drop_fwd: 0,
        drop_back: 0,
        dup_fwd: None,
        dup_back: None,
        tamper: Vec::new(),
        queue: Vec::new(),
        ord: 0,
    };
    // (token, future, already handed to the master: polled at least once by a `run`)
    let mut pending: Vec<(String, SyncFuture, bool)> = Vec::new();

    for op in &script.ops {
        match op[0].as_str() {
            "sync" => {
                let mut a = association.clone();
                let p = procedure;
                pending.push((
                    op[1].clone(),
                    Box::pin(async move { a.synchronize_time(p).await }),
                    false,
                ));
            }
            "fwd" => chan.fwd = op[1].parse().unwrap(),
            "back" => chan.back = op[1].parse().unwrap(),
            "hold" => chan.hold = op[1].parse().unwrap(),
            "proc" => {
                let v: u64 = op[1].parse().unwrap();
                shared.lock().unwrap().reported_delay = v.min(65535) as u16;
            }
            "drop" => match op[1].as_str() {
                "fwd" => chan.drop_fwd += 1,
                "back" => chan.drop_back += 1,
                x => panic!("bad direction {}", x),
            },
            "dup" => {
                let extra: u64 = op[2].parse().unwrap();
                match op[1].as_str() {
                    "fwd" => chan.dup_fwd = Some(extra),
                    "back" => chan.dup_back = Some(extra),
                    x => panic!("bad direction {}", x),
                }
            }
            "tamper" => {
                let arg = unhex(&op[2]);
                chan.tamper.push(match op[1].as_str() {
                    "objs" => Tamper::Objs(arg),
                    "iin" => Tamper::Iin(arg[0], arg[1]),
                    "ctl" => Tamper::Ctl(arg[0]),
                    x => panic!("bad tamper {}", x),
                });
            }
            "mclock" => shared.lock().unwrap().clock_on = op[1] == "on",
            "inject_master" => {
                let data = unhex(&op[1]);
                let t = chan.now();
                chan.log(format!("inj {} {}", t, hex(&data)));
                let mut wrote = Vec::new();
                deliver(&mut m_handle, &data, |w| wrote.push(w)).await;
                // a synchronisation completed by this very fragment is reported before what the
                // master went on to write (the order in which the master did it)
                let done: Vec<(usize, Result<(), TimeSyncError>)> = std::future::poll_fn(|cx| {
                    let mut out = Vec::new();
                    for (i, (_, f, started)) in pending.iter_mut().enumerate() {
                        if *started {
                            if let Poll::Ready(r) = f.as_mut().poll(cx) {
                                out.push((i, r));
                            }
                        }
                    }
                    Poll::Ready(out)
                })
                .await;
                let mut removed = 0;
                for (i, r) in done {
                    let (token, _, _) = pending.remove(i - removed);
                    removed += 1;
                    chan.log(match r {
                        Ok(()) => format!("res {} ok", token),
                        Err(e) => format!("res {} err {}", token, err_kind(e)),
                    });
                }
                // the master has run until it blocked again: whatever it wrote is in the event queue
                while let Some(ev) = m_handle.pop_event() {
                    if let Event::Write(w) = ev {
                        wrote.push(w);
                    }
                }
                for w in wrote {
                    chan.master_wrote(w);
                }
            }
            "run" => {
                let ms: u64 = op[1].parse().unwrap();
                let target = chan.now() + ms;
                let base = shared.lock().unwrap().base;
                let mut finishing = false;
                loop {
                    let deadline = chan.next_arrival().map_or(target, |a| a.min(target));
                    let wake = {
                        let results = std::future::poll_fn(|cx| {
                            for (i, (_, f, started)) in pending.iter_mut().enumerate() {
                                *started = true;
                                if let Poll::Ready(r) = f.as_mut().poll(cx) {
                                    return Poll::Ready((i, r));
                                }
                            }
                            Poll::Pending
                        });
                        tokio::select! {
                            biased;
                            (i, r) = results => Wake::Result(i, r),
                            e = m_handle.next_event() => Wake::Master(e),
                            e = o_handle.next_event() => Wake::Outstation(e),
                            _ = std::future::ready(()), if finishing => Wake::Quiet,
                            _ = tokio::time::sleep_until(base + Duration::from_millis(deadline)) => Wake::Timer,
                        }
                    };
                    match wake {
                        Wake::Result(i, r) => {
                            let (token, _, _) = pending.remove(i);
                            chan.log(match r {
                                Ok(()) => format!("res {} ok", token),
                                Err(e) => format!("res {} err {}", token, err_kind(e)),
                            });
                        }
                        Wake::Master(Event::Write(w)) => chan.master_wrote(w),
                        Wake::Outstation(Event::Write(w)) => chan.outstation_wrote(w),
                        Wake::Master(_) | Wake::Outstation(_) => {}
                        Wake::Quiet | Wake::Timer => {
                            let quiet = matches!(wake, Wake::Quiet);
                            let now = chan.now();
                            if let Some(m) = chan.pop_due(now) {
                                let mut wrote = Vec::new();
                                if m.to_master {
                                    deliver(&mut m_handle, &m.data, |w| wrote.push(w)).await;
                                    for w in wrote {
                                        chan.master_wrote(w);
                                    }
                                } else {
                                    deliver(&mut o_handle, &m.data, |w| wrote.push(w)).await;
                                    for w in wrote {
                                        chan.outstation_wrote(w);
                                    }
                                }
                            } else if quiet {
                                break;
                            } else if now >= target {
                                // let every task that was woken by its own timer at this instant
                                // run, then drain what they produced, then stop
                                for _ in 0..4 {
                                    tokio::task::yield_now().await;
                                }
                                finishing = true;
                            }
                        }
                    }
                }
            }
            x => panic!("bad op {}", x),
        }
    }

    {
        let mut s = shared.lock().unwrap();
        let t = s.now_ms();
        let line = match s.clock() {
            Some(v) => format!("clock {} {}", t, v),
            None => format!("clock {} none", t),
        };
        s.log.push(line);
        obs.append(&mut s.log);
    }

    drop(pending);
    m_join.abort();
    o_join.abort();
    let _ = m_join.await;
    let _ = o_join.await;
}
